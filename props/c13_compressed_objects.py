"""C13 -- hand-optimised compressed-object decoder agrees with the declarative template (DESIGN §4 C13).

Bounded-exhaustive differential exploration, no sampling.  Every payload is the wire encoding of a generated dict (the
property's "template's domain") or is a one-byte substitution / truncation / one-byte extension of such a payload.

The generator does NOT go through the template under test: header, prim parameters and the simple sections are packed with
``struct`` from a layout table written down from the protocol (REF_HEADER / REF_PRIM_LAYOUT / REF_FLAGS); the TextureEntry
is hand-packed as well (field framing, canonical face-set bytes, inverted colour, quantised offsets / rotation / glow, material
bit fields: ref_te), so the shared TE writer is judged against canonical bytes; only ExtraParams and the particle blocks are
encoded by the module-level sub-templates that both decoders share.  The template's
own ``serialize`` of the same dict must give the same bytes (template-encode), so "payloads the template emits" and "payloads
the generator emits" are the same set on a conforming tree, and a template whose member types drift (U8 -> S8) is judged on
the wire values it can no longer express instead of silently narrowing the generated domain.

Enumerated space
  A  all 2^11 section-flag combinations x every ``PCode`` enum member, baseline contents (every section filled with
     distinct non-zero byte patterns so that a mis-ordered or mis-sized read shows up as a different value)
  B  per-section content alphabets, one factor at a time, under a set of flag combinations that enable the section:
     quick   = {section alone, all sections, section + each single other section, all minus each single other}
     thorough = every one of the 2^10 (2^11 for always-present sections) combinations
  C  for 32 representative payloads: byte substitutions at every offset (quick: 5 values -- 0x00, 0xff, b^1, b^0x80,
     b+1; thorough: all 255 other values), every proper prefix (truncation), three one-byte extensions
  G  degenerate section contents, wire-first through the reference encoder (the domain "what the template accepts" may
     grow on one side only): for every section whose extent comes from a length prefix, a terminator, a fixed size or
     EOF -- TextureAnim, TextureEntry, ScratchPad (U32 length), Text, MediaURL, NameValue (NUL terminated), PSBlock (86),
     PSBlockNew (to EOF), every ExtraParams entry (U32 length) and the ExtraParams count -- the contents zero-length, one
     byte, length-1, exact, length+1 (prefix and blob kept consistent, so the rest of the payload stays aligned), under the
     section alone and all sections (thorough: the 22-24 combination cover); judged like C (well-formed => must agree)
  D  the representative payloads written to a viewer object-cache (.slc) file in a private temporary directory and
     read back through ``RegionViewerObjectCache`` (cache path hands the normaliser the very same bytes)

  E  decode histories (a decode result must be a function of the payload alone): for every representative p (thorough: also
     every content variant of B under its enabling flag alone), a *twin* (same bytes, other FullID / LocalID / CRC) and a
     *shifted* payload (other identity, ANGULAR_VELOCITY and PARENT_ID toggled, so every shared section sits at another offset
     but carries the same TextureEntry / ExtraParams / NameValue / particle / text bytes), and for each source decoder
     S in {fast reader, template, normaliser}: r1 = S(p); every mutable member of r1 is deep-mutated in place (lazy members
     forced first: TE field dicts edited and extended, ExtraParams entries, NameValue list and entries, particle blocks,
     vectors, text replaced); then every decoder D in {fast, template, normaliser, normaliser-over-cache-file} decodes p, twin
     and shifted again.  Each history runs in its own forked process (no history can see another's mutations; the witness
     replays in a fresh process).

  F  encode histories (an encode result must be a function of the value alone, also after an encode that failed): for every
     history payload p with decoding d, one forked process runs the op sequence
       for every failing edit e: fail(e), check            (this is also the interleaving fail, succeed, fail, succeed, ...)
       fail x3 (different members), check, check; foreign, fail, check; for every foreign failing encode: foreign, check
     fail(e) = template.serialize of a copy of d with ONE member replaced by an out-of-domain value, exception caught.  The
     edits are derived from the template, member by member: any object() value, max+1 / min-1 for integer members (through
     enum / flag / state adapters), 1e40 for F32, wrong-length fixed bytes; an edit is used only if a private probe shows that
     the template raises on it AFTER having written >= 1 byte.  foreign = a failing encode through another registered
     little-endian subfield serializer (TextureAnim Face=1000, ExtraParams bad light, ImprovedTerse State=300, PSBlock
     BurstPartCount=999), probed the same way.  check = template.serialize(d) == p, template.deserialize(p) and fast.read(p)
     still equal the pristine decoding.  The witness is the op prefix executed in that process.

A substituted / truncated payload is *well-formed* iff the template decodes it (lazy members forced) and re-encodes it
to itself; everything else is counted (rejected / non-canonical) and not judged.

Clauses (for every well-formed payload p; t = template.deserialize(p))
  template-encode-raises  generated dicts: template.serialize(d) does not raise (site = the member being written); also: a shared
                    sub-template refuses a generated section value
  template-encode   generated dicts: template.serialize(d) == the reference wire encoding of d
  template-decode   generated payloads only: the template decodes what it has just encoded
  reencode          generated payloads only: template.serialize(t) == p  (for mutated payloads this is the definition
                    of well-formed, so it cannot fail there)
  fast-raises       FastObjectUpdateCompressedDataDeserializer.read(p) does not raise (lazy members forced)
  field-keys        both decoders produce the same set of field names
  field-equal       ... and equal values key by key: lazy proxies forced, enums/flags compared by integer value,
                    dataclasses by class + fields, dict members in wire order, floats bit-exact, bytes/str exact
  normalize-agree   normalize_object_update_compressed_data(p) equals the normalisation sentence of the code's own
                    comments applied to t by a plain-Python reference (absent section -> default value; PSBlockNew wins
                    over PSBlock; missing parent = 0; null OwnerID dropped; ID -> LocalID; Flags dropped)
  network-agree     generated payloads (A, B): normalize_object_update_compressed(block, handle) == the above + UpdateFlags
                    + RegionHandle (the wrapper adds nothing payload-dependent, so it is not repeated per mutation)
  decode-independent  E: after the in-place edit of an earlier result, D(q) still equals a pristine deep copy of the template's
                    decoding of q taken before the edit (normaliser: the reference normal form of it), and for the two decoders
                    template.serialize(D(q)) == q.  site = fast.read:<member> / template:<member> / normalize:<member> /
                    cache-normalize:<member>, naming the decoder whose later result was wrong
  encode-independent  F: every check op of an encode history.  site = template.serialize:after-failed-encode:<compressed-member |
                    foreign:<Serializer>> (the kind of the last failed encode before the check; the member is in the detail),
                    template.deserialize:after-failed-encode / fast.read:after-failed-encode for the decoders
  cache-bytes       D: lookup_object_data(local_id, crc) returns exactly p (so the cache path normalises the same bytes)

PCode values outside the enum (reachable only through byte substitution at offset 20): the fast reader raises
``ValueError`` while the template returns the int.  DESIGN says report, do not assert ("object kinds" = the kinds the
code names): counted in ``pcode_outside_enum`` / ``pcode_outside_enum_fast_raises``.

Deviations from DESIGN, with reasons
  * DESIGN lists NameValue one/two entries; the alphabet also has the *empty* collection under the NAME_VALUES flag,
    because the template itself encodes it (one NUL) -- it is inside the "template's domain" the property quantifies over.
  * "every flag combination that enables the section" is the thorough tier; quick uses the 22/24-combination cover above
    (strict subset) to stay inside the time budget.
"""
from __future__ import annotations

import copy
import dataclasses
import os
import re
import struct
import tempfile
from typing import Any, Dict, List, Optional, Tuple

import lazy_object_proxy

import hippolyzer.lib.base.serialization as se
import hippolyzer.lib.base.templates as tmpls
from hippolyzer.lib.base.datatypes import Quaternion, TaggedUnion, TupleCoord, UUID, Vector3
from hippolyzer.lib.base.message.message import Block, Message
from hippolyzer.lib.base.namevalue import (NameValue, NameValueClass, NameValueCollection, NameValueSendTo,
                                           NameValueType)
from hippolyzer.lib.base import objects as objmod
from hippolyzer.lib.proxy.vocache import RegionViewerObjectCache

from hmc.core import HarnessError, Part, Run, pmap
from hmc.introspect import IntrospectionError, adapter_child, priv, template_members

LEVEL = "exploration"

SER = tmpls.ObjectUpdateCompressedDataSerializer
FAST = objmod.FastObjectUpdateCompressedDataDeserializer
CF = tmpls.CompressedFlags
PCODES = list(tmpls.PCode)
PCODE_VALUES = {int(p) for p in PCODES}
REGION_HANDLE = (256000 << 32) | 256512
UPDATE_FLAGS = 0x10000104


def f32(x: float) -> float:
    return struct.unpack("<f", struct.pack("<f", x))[0]


def U(n: int) -> UUID:
    return UUID(bytes=bytes(((n * 16 + i) & 0xFF) or 0xA5 for i in range(16)))


# ------------------------------------------------------------------------------------------- generated contents
def psys(**kw) -> dict:
    d = {"CRC": 0x01020304, "PSysFlags": tmpls.ParticleFlags.OBJECT_RELATIVE, "Pattern": tmpls.PartPattern.EXPLODE,
         "PSysMaxAge": 2.5, "StartAge": 0.25, "InnerAngle": 0.5, "OuterAngle": 1.25, "BurstRate": 0.125, "BurstRadius": 3.0,
         "BurstSpeedMin": 1.0, "BurstSpeedMax": 2.0, "BurstPartCount": 7, "Vel": Vector3(1.0, -2.0, 0.5),
         "Accel": Vector3(0.0, 0.0, -9.75), "Texture": U(3), "Target": U(4)}
    d.update(kw)
    return d


def pdata(flags: int = 0x3, **kw) -> dict:
    d = {"PDataFlags": tmpls.ParticleDataFlags(flags), "PDataMaxAge": 4.0, "StartColor": b"\x11\x22\x33\x44",
         "EndColor": b"\x55\x66\x77\x88", "StartScaleX": 0.5, "StartScaleY": 1.0, "EndScaleX": 2.0, "EndScaleY": 3.5}
    if flags & tmpls.ParticleDataFlags.DATA_GLOW:
        d.update(StartGlow=0.2, EndGlow=1.0)
    if flags & tmpls.ParticleDataFlags.DATA_BLEND:
        d.update(BlendSource=tmpls.ParticleBlendFunc.SOURCE_ALPHA, BlendDest=tmpls.ParticleBlendFunc.ONE_MINUS_SOURCE_ALPHA)
    d.update(kw)
    return d


def ps_legacy(**kw) -> TaggedUnion:
    return TaggedUnion(86, {"PSys": psys(**kw), "PData": pdata()})


def ps_new(flags: int = 0x3, **kw) -> TaggedUnion:
    size = 94 + (2 if flags & 0x10000 else 0) + (2 if flags & 0x20000 else 0)
    return TaggedUnion(size, {"PSys": psys(**kw), "PData": pdata(flags)})


def nv(name="FirstName", typ=NameValueType.String, rw=NameValueClass.ReadWrite, sendto=NameValueSendTo.DataSim, value="Ab"):
    return NameValue(name=name, type=typ, rw=rw, sendto=sendto, value=value)


def te_default() -> tmpls.TextureEntryCollection:
    return tmpls.TextureEntryCollection()


def te_exceptions() -> tmpls.TextureEntryCollection:
    te = tmpls.TextureEntryCollection()
    te.Textures = {None: U(5), (0,): U(6), (1, 3): U(7)}
    te.Color = {None: b"\xff\xff\xff\xff", (2,): b"\x10\x20\x30\x80"}
    te.ScalesS = {None: 1.0, (0, 1): 2.5}
    te.ScalesT = {None: 1.0, (5,): -0.5}
    te.OffsetsS = {None: 0.0, (1,): 0.75}
    te.OffsetsT = {None: 0.25, (2,): -1.0}
    te.Rotation = {None: 0.0, (4,): 1.5}
    te.BasicMaterials = {None: tmpls.BasicMaterials(), (0,): tmpls.BasicMaterials(Bump=3, FullBright=True, Shiny=tmpls.ShineLevel.HIGH)}
    te.MediaFlags = {None: tmpls.MediaFlags(), (1,): tmpls.MediaFlags(WebPage=True, TexGen=tmpls.TexGen.PLANAR)}
    te.Glow = {None: 0.0, (3,): 0.2}
    te.Materials = {None: UUID.ZERO, (0,): U(8)}
    return te


def te_high_faces() -> tmpls.TextureEntryCollection:
    te = tmpls.TextureEntryCollection()
    te.Textures = {None: U(5), (7,): U(6), (0, 8, 20): U(7), (44,): U(9)}  # multi-byte face bitfields
    te.Glow = {None: 1.0, (13, 14): 0.25}
    return te


def te_top_face(top: int) -> tmpls.TextureEntryCollection:
    """Exception face sets whose highest face is ``top``: alone, together with face 0, and a dense run below it."""
    te = tmpls.TextureEntryCollection()
    te.Textures = {None: U(5), (top,): U(6)}
    if top:
        te.Textures[(0, top)] = U(7)
    te.Color = {None: b"\xff\xff\xff\xff", tuple(range(max(0, top - 8), top + 1)): b"\x10\x20\x30\x80"}
    te.Glow = {None: 0.0, (top,): 1.0}
    te.Materials = {None: UUID.ZERO, (top,): U(8)}
    return te


def te_no_materials() -> tmpls.TextureEntryCollection:
    te = tmpls.TextureEntryCollection()
    te.Materials = None  # optional trailing field absent: EOF terminates the Glow field
    te.Glow = {None: 0.0, (1,): 1.0}
    return te


EP = tmpls.ExtraParamType
EXTRA = {
    "flexible": {EP.FLEXIBLE: {"Tension": {"Tension": 33, "Softness1": 2}, "Drag": {"Drag": 100, "Softness2": 1}, "Gravity": 9,
                               "Wind": 3, "UserForce": None}},
    "flexible-userforce": {EP.FLEXIBLE: {"Tension": {"Tension": 1, "Softness1": 3}, "Drag": {"Drag": 2, "Softness2": 0},
                                         "Gravity": 255, "Wind": 0, "UserForce": Vector3(1.0, 2.0, -3.0)}},
    "light": {EP.LIGHT: {"Color": b"\x01\x02\x03\x04", "Radius": 10.0, "Cutoff": 0.5, "Falloff": 0.75}},
    "sculpt": {EP.SCULPT: {"Texture": U(10), "TypeData": tmpls.SculptTypeData(Type=tmpls.SculptType.TORUS, Invert=True, Mirror=False)}},
    "light-image": {EP.LIGHT_IMAGE: {"Texture": U(11), "FOV": 1.5, "Focus": -2.0, "Ambiance": 0.25}},
    "mesh": {EP.MESH: {"Asset": U(12), "TypeData": tmpls.SculptTypeData(Type=tmpls.SculptType.MESH, Invert=False, Mirror=True)}},
    "extended-mesh": {EP.EXTENDED_MESH: {"Flags": tmpls.ExtendedMeshFlags.ANIMATED_MESH}},
    "render-material-0": {EP.RENDER_MATERIAL: []},
    "render-material-2": {EP.RENDER_MATERIAL: [{"TEIdx": 0, "TEID": U(13)}, {"TEIdx": 255, "TEID": U(14)}]},
    "reflection-probe": {EP.REFLECTION_PROBE: {"Ambiance": 0.5, "ClipDistance": 16.0, "Flags": tmpls.ReflectionProbeFlags.DYNAMIC}},
}
EXTRA["two:light+sculpt"] = {**EXTRA["light"], **EXTRA["sculpt"]}
EXTRA["two:mesh+flexible (wire order reversed)"] = {**EXTRA["mesh"], **EXTRA["flexible"]}
EXTRA["three"] = {**EXTRA["reflection-probe"], **EXTRA["render-material-2"], **EXTRA["extended-mesh"]}

# optional sections: flag -> {field: baseline value}
SECTION_BASE: Dict[str, Dict[str, Any]] = {
    "ANGULAR_VELOCITY": {"AngularVelocity": Vector3(0.25, -0.5, 4.0)},
    "PARENT_ID": {"ParentID": 0x0A0B0C0D},
    "TREE": {"TreeSpecies": 5},
    "SCRATCHPAD": {"ScratchPad": b"\x01\x02\x03"},
    "TEXT": {"Text": "hi", "TextColor": b"\x10\x20\x30\x40"},
    "MEDIA_URL": {"MediaURL": "http://x/"},
    "PARTICLES": {"PSBlock": ps_legacy()},
    "SOUND": {"Sound": U(2), "SoundGain": 0.5, "SoundFlags": tmpls.SoundFlags.LOOP | tmpls.SoundFlags.QUEUE, "SoundRadius": 20.0},
    "NAME_VALUES": {"NameValue": NameValueCollection([nv()])},
    "TEXTURE_ANIM": {"TextureAnim": tmpls.TextureAnim(Mode=tmpls.TextureAnimMode.ON | tmpls.TextureAnimMode.LOOP, Face=-1,
                                                      SizeX=2, SizeY=3, Start=0.5, Length=6.25, Rate=0.125)},
    "PARTICLES_NEW": {"PSBlockNew": ps_new()},
}
# Sections the harness knows how to fill.  A flag the code names but the table lacks is never set by the generator (noted in
# the evidence); a member the template gains is still caught by the field-keys clause on every payload.
# Section bits of the wire format (LLViewerObject compressed update), NOT read from the code under test: the generator must not
# follow an implementation that renumbers or drops a flag.
REF_FLAGS: Dict[str, int] = {"SCRATCHPAD": 0x001, "TREE": 0x002, "TEXT": 0x004, "PARTICLES": 0x008, "SOUND": 0x010, "PARENT_ID": 0x020,
                             "TEXTURE_ANIM": 0x040, "ANGULAR_VELOCITY": 0x080, "NAME_VALUES": 0x100, "MEDIA_URL": 0x200,
                             "PARTICLES_NEW": 0x400}
assert set(REF_FLAGS) == set(SECTION_BASE)
FLAG_LIST: List[Tuple[str, int]] = list(REF_FLAGS.items())
FLAG_VALUE = dict(FLAG_LIST)
FLAGS_UNKNOWN_TO_HARNESS = [f.name for f in CF if f.name not in SECTION_BASE]
FLAGS_DIFFERENT_IN_CODE = sorted(n for n, v in REF_FLAGS.items() if n not in CF.__members__ or int(CF[n].value) != v)
ALL_FLAGS = 0
for _n, _v in FLAG_LIST:
    ALL_FLAGS |= _v
_NAMED_BITS = ALL_FLAGS
for _f in CF:
    _NAMED_BITS |= int(_f.value)
FREE_BITS = [1 << b for b in range(32) if not (1 << b) & _NAMED_BITS]  # flag bits no section is attached to


def header(pcode, state: int = 0x12) -> dict:
    return {
        "FullID": U(1), "ID": 0x01020304, "PCode": pcode, "State": state, "CRC": 0x11223344, "Material": tmpls.MCode.WOOD,
        "ClickAction": 2, "Scale": Vector3(1.5, 2.5, 0.25), "Position": Vector3(128.0, 64.5, 23.125),
        "Rotation": Quaternion(0.5, -0.5, 0.5), "OwnerID": U(15),
        "ExtraParams": {},
        "PathCurve": 0x20, "ProfileCurve": 0x05, "PathBegin": 1000, "PathEnd": 25600, "PathScaleX": 150, "PathScaleY": 100,
        "PathShearX": 3, "PathShearY": 250, "PathTwist": -7, "PathTwistBegin": 9, "PathRadiusOffset": -11, "PathTaperX": 13,
        "PathTaperY": -15, "PathRevolutions": 17, "PathSkew": -19, "ProfileBegin": 2100, "ProfileEnd": 2300, "ProfileHollow": 2500,
        "TextureEntry": te_default(),
    }


def build(flags: int, pcode, overrides: Optional[dict] = None, state: int = 0x12) -> dict:
    d = header(pcode, state)
    d["Flags"] = flags
    for name, val in FLAG_LIST:
        for k, v in SECTION_BASE[name].items():
            d[k] = v if flags & val else None
    if overrides:
        d.update(overrides)
    return d


class GenFailure(Exception):
    """Library code refused (or mis-sized) a value while a payload was being built: reported as a violation, never a crash."""

    def __init__(self, member: str, exc: BaseException):
        super().__init__(f"{member}: {exc!r}")
        self.member, self.exc = member, exc


# Fixed parts of the wire layout, written down from the protocol (LLViewerObject::processUpdateMessage, OUT_FULL_COMPRESSED and
# the ObjectUpdate message template for the prim parameters), independent of both decoders under test.
REF_HEADER = struct.Struct("<16sIBBIBB3f3f3fI16s")
REF_HEADER_LAYOUT = (("FullID", 16), ("ID", 4), ("PCode", 1), ("State", 1), ("CRC", 4), ("Material", 1), ("ClickAction", 1), ("Scale", 12),
                     ("Position", 12), ("Rotation", 12), ("Flags", 4), ("OwnerID", 16))
REF_PRIM_LAYOUT = (("PathCurve", "B"), ("ProfileCurve", "B"), ("PathBegin", "H"), ("PathEnd", "H"), ("PathScaleX", "B"), ("PathScaleY", "B"),
                   ("PathShearX", "B"), ("PathShearY", "B"), ("PathTwist", "b"), ("PathTwistBegin", "b"), ("PathRadiusOffset", "b"),
                   ("PathTaperX", "b"), ("PathTaperY", "b"), ("PathRevolutions", "B"), ("PathSkew", "b"), ("ProfileBegin", "H"),
                   ("ProfileEnd", "H"), ("ProfileHollow", "H"))


def _shared(member: str, spec: Any, val: Any) -> bytes:
    """Bytes of a complex section through the module-level template BOTH decoders share (TE, ExtraParams, particle block)."""
    w = se.BufferWriter("<")
    try:
        w.write(spec, val)
    except Exception as e:
        raise GenFailure(member, e)
    return bytes(w.buffer)


# TextureEntry wire form (LLPrimitive::packTEMessage), hand-packed: per field the default value, then (face set, value) pairs;
# a NUL in front of every field but the first; the trailing Materials field is optional.  Face sets: 7 faces per byte, most
# significant group first, bit 7 = "another byte follows", NO leading empty group (canonical form).
TE_FIELD_ORDER = ("Textures", "Color", "ScalesS", "ScalesT", "OffsetsS", "OffsetsT", "Rotation", "BasicMaterials", "MediaFlags", "Glow",
                  "Materials")


def ref_face_set(faces) -> bytes:
    packed = 0
    for f in faces:
        packed |= 1 << int(f)
    groups = []
    while packed:
        groups.append(packed & 0x7F)
        packed >>= 7
    groups.reverse()
    return bytes((g | 0x80) if i < len(groups) - 1 else g for i, g in enumerate(groups))


def _quant(x: float, scale: float) -> int:
    v = x * scale
    if abs(abs(v - int(v)) - 0.5) < 1e-6:
        raise HarnessError(f"generator value {x!r} sits on a rounding boundary of the quantiser; pick another")
    return int(round(v))


def ref_te_value(field: str, v: Any) -> bytes:
    if field in ("Textures", "Materials"):
        return v.bytes
    if field == "Color":
        return bytes(~b & 0xFF for b in v)
    if field in ("ScalesS", "ScalesT"):
        return struct.pack("<f", v)
    if field in ("OffsetsS", "OffsetsT"):
        return struct.pack("<h", _quant(v, 32767.0))
    if field == "Rotation":
        return struct.pack("<h", _quant(v, 32768.0 / (2 * 3.141592653589793)))
    if field == "Glow":
        return struct.pack("<B", _quant(v, 255.0))
    if field == "BasicMaterials":
        return struct.pack("<B", (int(v.Bump) & 0x1F) | (0x20 if v.FullBright else 0) | ((int(v.Shiny) & 0x3) << 6))
    if field == "MediaFlags":
        return struct.pack("<B", (1 if v.WebPage else 0) | (int(v.TexGen) & 0x06) | (int(getattr(v, "_Unused", 0)) & 0xF8))
    raise HarnessError(f"unknown TE field {field}")


def ref_te(te: Any) -> bytes:
    out = bytearray()
    for i, field in enumerate(TE_FIELD_ORDER):
        vals = getattr(te, field)
        if field == "Materials" and not vals:
            continue
        if i:
            out += b"\x00"
        out += ref_te_value(field, vals[None])
        for faces, v in vals.items():
            if faces is not None:
                out += ref_face_set(faces) + ref_te_value(field, v)
    return bytes(out)


def wire_state(pcode: Any, state: Any) -> int:
    st = int(state)
    if int(pcode) == 9:  # PRIMITIVE: attachment point, nibbles swapped on the wire
        return ((st & 0xF0) >> 4) | ((st & 0x0F) << 4)
    return st


def encode(d: dict, raw: Optional[Dict[str, bytes]] = None) -> Tuple[bytes, List[Tuple[int, str]]]:
    """Reference wire encoder: (payload, [(start offset, top-level member)]).  Fixed-layout parts and the simple sections are
    packed by hand, the TextureEntry too (ref_te); only ExtraParams and the particle blocks go through shared sub-templates."""
    buf = bytearray()
    tops: List[Tuple[int, str]] = []

    def put(member: str, data: bytes):
        if raw and member in raw:  # wire-first: these exact bytes stand where the member's section would be
            data = raw[member]
        tops.append((len(buf), member))
        buf.extend(data)

    sc, po, ro = d["Scale"], d["Position"], d["Rotation"]
    flags = int(d["Flags"])
    hdr = REF_HEADER.pack(d["FullID"].bytes, int(d["ID"]), int(d["PCode"]), wire_state(d["PCode"], d["State"]), int(d["CRC"]),
                          int(d["Material"]), int(d["ClickAction"]), sc.X, sc.Y, sc.Z, po.X, po.Y, po.Z, ro.X, ro.Y, ro.Z,
                          flags, d["OwnerID"].bytes)
    off = 0
    for name, size in REF_HEADER_LAYOUT:
        put(name, hdr[off:off + size])
        off += size
    F = REF_FLAGS
    if flags & F["ANGULAR_VELOCITY"]:
        v = d["AngularVelocity"]
        put("AngularVelocity", struct.pack("<3f", v.X, v.Y, v.Z))
    if flags & F["PARENT_ID"]:
        put("ParentID", struct.pack("<I", d["ParentID"]))
    if flags & F["TREE"]:
        put("TreeSpecies", struct.pack("<B", d["TreeSpecies"]))
    if flags & F["SCRATCHPAD"]:
        put("ScratchPad", struct.pack("<I", len(d["ScratchPad"])) + bytes(d["ScratchPad"]))
    if flags & F["TEXT"]:
        put("Text", d["Text"].encode("utf8") + b"\x00")
        if len(d["TextColor"]) != 4:
            raise HarnessError("TextColor must be 4 bytes")
        put("TextColor", bytes(d["TextColor"]))
    if flags & F["MEDIA_URL"]:
        put("MediaURL", d["MediaURL"].encode("utf8") + b"\x00")
    if flags & F["PARTICLES"]:
        ps = _shared("PSBlock", tmpls.PSBLOCK_TEMPLATE, d["PSBlock"])
        if len(ps) != 86:
            raise GenFailure("PSBlock", ValueError(f"legacy particle block encodes to {len(ps)} bytes, the wire format has 86"))
        put("PSBlock", ps)
    put("ExtraParams", _shared("ExtraParams", tmpls.EXTRA_PARAM_COLLECTION, d["ExtraParams"]))
    if flags & F["SOUND"]:
        put("Sound", d["Sound"].bytes)
        put("SoundGain", struct.pack("<f", d["SoundGain"]))
        put("SoundFlags", struct.pack("<B", int(d["SoundFlags"])))
        put("SoundRadius", struct.pack("<f", d["SoundRadius"]))
    if flags & F["NAME_VALUES"]:
        lines = [f"{n.name} {n.type.value} {n.rw.value} {n.sendto.value} {n.value}" for n in d["NameValue"]]
        put("NameValue", "\n".join(lines).encode("utf8") + b"\x00")
    for name, fmt in REF_PRIM_LAYOUT:
        put(name, struct.pack("<" + fmt, d[name]))
    te = b"" if d["TextureEntry"] is None else ref_te(d["TextureEntry"])
    put("TextureEntry", struct.pack("<I", len(te)) + te)
    if flags & F["TEXTURE_ANIM"]:
        ta = d["TextureAnim"]
        put("TextureAnim", struct.pack("<IBbBBfff", 16, int(ta.Mode), ta.Face, ta.SizeX, ta.SizeY, ta.Start, ta.Length, ta.Rate))
    if flags & F["PARTICLES_NEW"]:
        put("PSBlockNew", _shared("PSBlockNew", tmpls.PSBLOCK_TEMPLATE, d["PSBlockNew"]))
    return bytes(buf), tops


def template_encode(d: dict) -> Tuple[Optional[bytes], str, Optional[BaseException]]:
    """The template's own encoding of d: (bytes | None, member being written when it raised, exception)."""
    w = se.MemberTrackingBufferWriter("<")
    try:
        w.write(SER.TEMPLATE, d)
    except Exception as e:
        last = w.member_positions[-1][1][0] if w.member_positions else "?"
        return None, str(last), e
    return w.copy_buffer(), "", None


def member_at(tops: List[Tuple[int, str]], off: int) -> str:
    """Top-level member whose bytes cover ``off`` (zero-width members are skipped)."""
    name = "?"
    for i, (pos, m) in enumerate(tops):
        end = tops[i + 1][0] if i + 1 < len(tops) else 1 << 30
        if pos <= off < end:
            name = m
    return name


# factor table: (factor, variant, enabling flag name or None, overrides)
def factor_table() -> List[Tuple[str, str, Optional[str], dict]]:
    T: List[Tuple[str, str, Optional[str], dict]] = []

    def add(factor, variant, flag, **ov):
        T.append((factor, variant, flag, ov))

    for name, s in (("empty", ""), ("ascii", "Hello, world"), ("2-byte", "héllo ü"), ("3-byte", "✓ 日本"),
                    ("4-byte", "\U0001d532\U0001d52b\U0001d526"), ("long-300", "x" * 299 + "é"),
                    ("len-1023", "y" * 1023), ("len-1024", "y" * 1024), ("len-1025", "y" * 1023 + "é"), ("len-5000", "z" * 5000)):
        add("Text", name, "TEXT", Text=s)
        add("MediaURL", name, "MEDIA_URL", MediaURL=s)
    for name, c in (("zero", b"\x00\x00\x00\x00"), ("ff", b"\xff\xff\xff\xff"), ("alpha-only", b"\x00\x00\x00\xff")):
        add("TextColor", name, "TEXT", TextColor=c)
    for n in (0, 1, 4, 300):
        add("ScratchPad", f"len-{n}", "SCRATCHPAD", ScratchPad=bytes((i * 7 + 1) & 0xFF for i in range(n)))
    for name, ep in EXTRA.items():
        add("ExtraParams", name, None, ExtraParams=ep)
    add("NameValue", "empty-collection", "NAME_VALUES", NameValue=NameValueCollection())
    add("NameValue", "two", "NAME_VALUES", NameValue=NameValueCollection([nv(), nv("LastName", value="Resident")]))
    add("NameValue", "value-with-spaces", "NAME_VALUES", NameValue=NameValueCollection([nv("Title", value="a b  c")]))
    add("NameValue", "multibyte+types", "NAME_VALUES", NameValue=NameValueCollection([
        nv("DisplayName", value="\U0001d532é"), nv("AttachItemID", NameValueType.Asset, NameValueClass.ReadOnly,
                                                         NameValueSendTo.SimViewer, str(U(9))),
        nv("Count", NameValueType.S32, NameValueClass.ReadWrite, NameValueSendTo.DataSimViewer, "-12")]))
    add("NameValue", "empty-value", "NAME_VALUES", NameValue=NameValueCollection([nv("Empty", value="")]))
    add("PSBlock", "legacy-other-values", "PARTICLES", PSBlock=ps_legacy(CRC=0xFFFFFFFF, Pattern=tmpls.PartPattern.ANGLE_CONE,
                                                                          BurstPartCount=255, Vel=Vector3(-256.0, 255.0, 0.0)))
    add("PSBlock", "legacy-zero", "PARTICLES", PSBlock=TaggedUnion(86, {
        "PSys": psys(CRC=0, PSysFlags=0, Pattern=0, PSysMaxAge=0.0, StartAge=0.0, InnerAngle=0.0, OuterAngle=0.0, BurstRate=0.0,
                     BurstRadius=0.0, BurstSpeedMin=0.0, BurstSpeedMax=0.0, BurstPartCount=0, Vel=Vector3(), Accel=Vector3(),
                     Texture=UUID(), Target=UUID()),
        "PData": pdata(0, PDataMaxAge=0.0, StartColor=b"\0\0\0\0", EndColor=b"\0\0\0\0", StartScaleX=0.0, StartScaleY=0.0,
                       EndScaleX=0.0, EndScaleY=0.0)}))
    add("PSBlockNew", "legacy-86", "PARTICLES_NEW", PSBlockNew=ps_legacy(CRC=0x0F0E0D0C))
    add("PSBlockNew", "empty", "PARTICLES_NEW", PSBlockNew=TaggedUnion(0, None))
    add("PSBlockNew", "variable-glow", "PARTICLES_NEW", PSBlockNew=ps_new(0x10003))
    add("PSBlockNew", "variable-blend", "PARTICLES_NEW", PSBlockNew=ps_new(0x20400))
    add("PSBlockNew", "variable-glow+blend", "PARTICLES_NEW", PSBlockNew=ps_new(0x307FF))
    add("PSBlockNew", "different-from-old", "PARTICLES_NEW", PSBlockNew=ps_new(0x3, CRC=0x99887766, BurstPartCount=1))
    add("TextureEntry", "none", None, TextureEntry=None)
    add("TextureEntry", "exceptions", None, TextureEntry=te_exceptions())
    add("TextureEntry", "high-faces", None, TextureEntry=te_high_faces())
    add("TextureEntry", "no-materials", None, TextureEntry=te_no_materials())
    for top in list(range(32)) + [34, 35, 41, 42, 44]:  # every 7-bit group boundary of the face-set encoding up to MAX_TES - 1
        add("TextureEntry", f"top-face-{top}", None, TextureEntry=te_top_face(top))
    TA, TM = tmpls.TextureAnim, tmpls.TextureAnimMode
    add("TextureAnim", "all-modes", "TEXTURE_ANIM", TextureAnim=TA(Mode=TM(0x7F), Face=127, SizeX=255, SizeY=0, Start=-1.0, Length=0.0, Rate=1e9))
    add("TextureAnim", "zero", "TEXTURE_ANIM", TextureAnim=TA(Mode=TM(0), Face=0, SizeX=0, SizeY=0, Start=0.0, Length=0.0, Rate=0.0))
    add("TextureAnim", "unknown-mode-bit", "TEXTURE_ANIM", TextureAnim=TA(Mode=TM(0x81), Face=-128, SizeX=1, SizeY=1, Start=0.5, Length=1.0, Rate=-2.0))
    SF = tmpls.SoundFlags
    add("Sound", "flags-0", "SOUND", SoundFlags=SF(0))
    add("Sound", "flags-all", "SOUND", SoundFlags=SF(0x3F))
    add("Sound", "flags-unknown-bits", "SOUND", SoundFlags=SF(0xC1))
    add("Sound", "gain-radius-swapped-values", "SOUND", SoundGain=20.0, SoundRadius=0.5)
    add("Sound", "null-sound-id", "SOUND", Sound=UUID(), SoundGain=0.0, SoundRadius=0.0)
    add("Sound", "gain-1", "SOUND", SoundGain=1.0, SoundRadius=f32(0.1))
    add("AngularVelocity", "zero", "ANGULAR_VELOCITY", AngularVelocity=Vector3())
    add("AngularVelocity", "large", "ANGULAR_VELOCITY", AngularVelocity=Vector3(-1e10, f32(3.4e38), f32(1e-40)))
    for v in (0, 1, 0xFFFFFFFF):
        add("ParentID", f"{v:#x}", "PARENT_ID", ParentID=v)
    for v in (0, 255):
        add("TreeSpecies", str(v), "TREE", TreeSpecies=v)
    # always-present header members
    for v in (0, 1, 2, 4, 7, 8, 0x83, 255):
        add("Material", str(v), None, Material=v)
    for v in (0, 0xFFFFFFFF):
        add("ID", f"{v:#x}", None, ID=v, CRC=v ^ 0xFFFFFFFF)
    add("OwnerID", "null", None, OwnerID=UUID())
    add("FullID", "null", None, FullID=UUID())
    add("ClickAction", "255", None, ClickAction=255)
    add("Rotation", "identity", None, Rotation=Quaternion(0.0, 0.0, 0.0))
    add("Rotation", "x=1", None, Rotation=Quaternion(1.0, 0.0, 0.0))
    add("Rotation", "norm>1", None, Rotation=Quaternion(f32(0.8), f32(0.7), f32(0.6)))
    add("Rotation", "negative-zero", None, Rotation=Quaternion(-0.0, 0.0, -0.0))
    add("Rotation", "nan", None, Rotation=Quaternion(float("nan"), 0.0, 0.0))
    add("Scale", "zero", None, Scale=Vector3(), Position=Vector3(-0.0, 0.0, 0.0))
    add("Position", "huge+inf", None, Position=Vector3(f32(1e30), float("inf"), float("-inf")))
    add("PrimParams", "zeros", None, **{k: 0 for k in header(tmpls.PCode.PRIMITIVE) if k.startswith(("Path", "Profile"))})
    add("PrimParams", "max", None, PathCurve=255, ProfileCurve=255, PathBegin=65535, PathEnd=65535, PathScaleX=255, PathScaleY=255,
        PathShearX=255, PathShearY=255, PathTwist=127, PathTwistBegin=127, PathRadiusOffset=127, PathTaperX=127, PathTaperY=127,
        PathRevolutions=255, PathSkew=127, ProfileBegin=65535, ProfileEnd=65535, ProfileHollow=65535)
    add("PrimParams", "min-signed", None, PathTwist=-128, PathTwistBegin=-128, PathRadiusOffset=-128, PathTaperX=-128, PathTaperY=-128,
        PathSkew=-128)
    for name, extra_bits in (("lowest", FREE_BITS[0]), ("highest", FREE_BITS[-1]), ("all-but-highest", sum(FREE_BITS[:-1]))):
        add("Flags", f"unnamed-bits-{name}", None, __extra_flag_bits=extra_bits)
    return T


STATE_ALPHABET_QUICK = (0x00, 0x01, 0x04, 0x10, 0x14, 0x12, 0x21, 0x80, 0xF0, 0x0F, 0xFF)


def flag_cover(required: Optional[int], thorough: bool) -> List[int]:
    bits = [v for _, v in FLAG_LIST if v != required]
    if thorough:
        out = []
        for mask in range(1 << len(bits)):
            f = required or 0
            for i, b in enumerate(bits):
                if mask >> i & 1:
                    f |= b
            out.append(f)
        return out
    req = required or 0
    out = [req, ALL_FLAGS]
    for b in bits:
        out.append(req | b)
        out.append(ALL_FLAGS & ~b)
    seen, res = set(), []
    for f in out:
        if f not in seen:
            seen.add(f)
            res.append(f)
    return res


# ------------------------------------------------------------------------------------------------------ comparison
_PROXY = lazy_object_proxy.Proxy


def force(x: Any) -> Any:
    """Only top-level members are ever lazy (TextureEntry); nested values are plain."""
    if type(x) is _PROXY:
        return x.__wrapped__
    return x


def fbits(x: float) -> bytes:
    return struct.pack("<d", x)


def same(a: Any, b: Any, path: str = "") -> Optional[str]:
    """None if equal under the property's notion of equality, else a short description of the first difference.
    (Lazy members are forced by the callers: they only occur at the top level.)"""
    if a is None or b is None:
        return None if a is None and b is None else f"{path}: {a!r} != {b!r}"
    if isinstance(a, bool) or isinstance(b, bool):
        return None if isinstance(a, bool) and isinstance(b, bool) and a == b else f"{path}: {a!r} != {b!r}"
    if isinstance(a, int) and isinstance(b, int):  # enums / flags by value
        return None if int(a) == int(b) else f"{path}: {int(a)!r} != {int(b)!r}"
    if isinstance(a, float) and isinstance(b, float):
        return None if fbits(a) == fbits(b) else f"{path}: {a!r} != {b!r} (bit-exact)"
    if isinstance(a, UUID) and isinstance(b, UUID):
        return None if a.bytes == b.bytes else f"{path}: {a} != {b}"
    if isinstance(a, str) and isinstance(b, str):
        return None if str(a) == str(b) else f"{path}: {a!r} != {b!r}"
    if isinstance(a, (bytes, bytearray, memoryview)) and isinstance(b, (bytes, bytearray, memoryview)):
        return None if bytes(a) == bytes(b) else f"{path}: {bytes(a)!r} != {bytes(b)!r}"
    if isinstance(a, TupleCoord) and isinstance(b, TupleCoord):
        if type(a) is not type(b):
            return f"{path}: {type(a).__name__} vs {type(b).__name__}"
        for i, (x, y) in enumerate(zip(a.data(), b.data())):
            r = same(x, y, f"{path}[{i}]")
            if r:
                return r
        return None
    if isinstance(a, TaggedUnion) and isinstance(b, TaggedUnion):
        return same(a.tag, b.tag, path + ".tag") or same(a.value, b.value, path + ".value")
    if dataclasses.is_dataclass(a) and dataclasses.is_dataclass(b):
        if type(a) is not type(b):
            return f"{path}: {type(a).__name__} vs {type(b).__name__}"
        for f in dataclasses.fields(a):
            r = same(getattr(a, f.name), getattr(b, f.name), f"{path}.{f.name}")
            if r:
                return r
        return None
    if isinstance(a, dict) and isinstance(b, dict):
        ka, kb = list(a.keys()), list(b.keys())
        if len(ka) != len(kb):
            return f"{path}: keys {ka!r} != {kb!r}"
        for x, y in zip(ka, kb):  # wire order is observable on re-encode
            r = same(x, y, f"{path}<key>")
            if r:
                return f"{path}: keys {ka!r} != {kb!r}"
            r = same(a[x], b[y], f"{path}[{x!r}]")
            if r:
                return r
        return None
    if isinstance(a, (list, tuple)) and isinstance(b, (list, tuple)):
        if isinstance(a, tuple) != isinstance(b, tuple) or len(a) != len(b):
            return f"{path}: {a!r} != {b!r}"
        for i, (x, y) in enumerate(zip(a, b)):
            r = same(x, y, f"{path}[{i}]")
            if r:
                return r
        return None
    if type(a) is type(b) and a == b:
        return None
    return f"{path}: {a!r} ({type(a).__name__}) != {b!r} ({type(b).__name__})"


class _Empty:
    """'no text': the normaliser writes b'' where a present section holds a str; any zero-length str/bytes is accepted."""

    def __repr__(self):
        return "<empty str/bytes>"


EMPTY = _Empty()


NORMALIZE_READS = frozenset(("PCode", "Flags", "ID", "PSBlock", "PSBlockNew", "ParentID", "NameValue", "Text", "TextColor", "MediaURL",
                             "AngularVelocity", "SoundFlags", "TextureEntry", "OwnerID"))


def ref_normalize(t: Dict[str, Any]) -> Dict[str, Any]:
    """The normal form the comments in normalize_object_update_compressed_data describe, from the *template's* result."""
    new, old = force(t["PSBlockNew"]), force(t["PSBlock"])
    ps = new if new is not None else old
    out: Dict[str, Any] = {"PSBlock": None if ps is None else ps.value,
                           "ParentID": t["ParentID"] if t["ParentID"] else 0,
                           "LocalID": t["ID"]}
    for k, v in t.items():
        if k in ("Flags", "PSBlockNew", "PSBlock", "ParentID", "ID"):
            continue
        out[k] = v
    if out["NameValue"] is None:
        out["NameValue"] = []
    if out["Text"] is None:
        out["Text"] = EMPTY
        out["TextColor"] = EMPTY
    if out["MediaURL"] is None:
        out["MediaURL"] = EMPTY
    if out["AngularVelocity"] is None:
        out["AngularVelocity"] = Vector3(0.0, 0.0, 0.0)
    if out["SoundFlags"] is None:
        out.update(SoundFlags=0, SoundGain=0.0, SoundRadius=0.0, Sound=UUID(int=0))
    if out["TextureEntry"] is None:
        out["TextureEntry"] = tmpls.TextureEntryCollection()
    if out["OwnerID"].int == 0:
        del out["OwnerID"]
    return out


def same_norm(got: Any, exp: Any, path: str) -> Optional[str]:
    if exp is EMPTY:
        g = force(got)
        return None if isinstance(g, (str, bytes)) and len(g) == 0 else f"{path}: {g!r} is not an empty string"
    return same(force(got), force(exp), path)


# ---------------------------------------------------------------------------------------------------------- oracle
def judge(part: Part, p: bytes, origin: str, site_hint: str, witness: dict, tops: Optional[List[Tuple[int, str]]] = None,
          d: Optional[dict] = None) -> str:
    """Evaluate every clause on payload ``p``.  origin 'generated': p came out of template.serialize (template clauses
    are asserted); origin 'mutated': p is judged only if well-formed.  Returns the outcome class."""
    generated = origin == "generated"
    part.count("evaluations")
    if generated and d is not None:  # p is the reference encoding of d: the template must encode d to the same bytes
        enc, member, exc = template_encode(d)
        if exc is not None:
            part.violation("template-encode-raises", f"Data.{member}", witness,
                           f"template.serialize refused a generated value the wire format can carry: {member}={d.get(member)!r}: {exc!r}")
        elif enc != p:
            i = next((j for j in range(min(len(p), len(enc))) if p[j] != enc[j]), min(len(p), len(enc)))
            m = member_at(tops, i) if tops else site_hint
            part.violation("template-encode", f"Data.{m}", witness,
                           f"template.serialize(generated value) differs from the reference wire encoding at offset {i} (member {m}): "
                           f"template {len(enc)} B ...{enc[max(0, i - 2):i + 6].hex()}, reference {len(p)} B ...{p[max(0, i - 2):i + 6].hex()}")
    try:
        t = SER.deserialize(None, p)
        for k in t:
            t[k] = force(t[k])
    except Exception as e:
        if generated:
            part.violation("template-decode", f"Data.{site_hint}", witness, f"template cannot decode a generated payload: {e!r}")
            return "template-decode-fails"
        part.count("mutated_rejected_by_template")
        return "rejected:" + type(e).__name__
    try:
        p2 = SER.serialize(None, t)
    except Exception as e:
        if generated:
            part.violation("reencode", f"Data.{site_hint}", witness, f"template.serialize(template.deserialize(p)) raised {e!r}")
            return "reencode-raises"
        part.count("mutated_noncanonical")
        return "noncanonical:raises"
    if p2 != p:
        if generated:
            i = next((j for j in range(min(len(p), len(p2))) if p[j] != p2[j]), min(len(p), len(p2)))
            m = member_at(tops, i) if tops else site_hint
            part.violation("reencode", f"Data.{m}", witness,
                           f"re-encoding differs at offset {i} (member {m}): payload {len(p)} B ...{p[max(0, i - 2):i + 6].hex()}, "
                           f"re-encoded {len(p2)} B ...{p2[max(0, i - 2):i + 6].hex()}; decoded {m}={t.get(m)!r}")
            return "reencode-differs"
        part.count("mutated_noncanonical")
        return "noncanonical"
    part.count("wellformed")
    lacking = sorted(NORMALIZE_READS - set(t))
    if lacking:  # a template that drops / renames a member: the reference normal form cannot be stated, the key sets are compared
        part.violation("field-keys", "template:keys", witness, f"template result lacks the members {lacking}")
        try:
            f = FAST.read(p)
            if set(f) != set(t):
                part.violation("field-keys", "fast.read:keys", witness,
                               f"template-only {sorted(set(t) - set(f))} fast-only {sorted(set(f) - set(t))}")
        except Exception as e:
            part.violation("fast-raises", f"fast.read@{site_hint}", witness, f"fast reader raised {e!r}")
        return "violation"
    if int(t["PCode"]) not in PCODE_VALUES:
        part.count("pcode_outside_enum")
        try:
            FAST.read(p)
            part.count("pcode_outside_enum_fast_accepts")
        except Exception:
            part.count("pcode_outside_enum_fast_raises")
        return "pcode-outside-enum"
    part.count("compared")
    bad = False
    f = None
    try:
        f = FAST.read(p)
        for k in f:
            f[k] = force(f[k])
    except Exception as e:
        part.violation("fast-raises", f"fast.read@{site_hint}", witness, f"template decodes and re-encodes the payload, fast reader raised {e!r}")
        bad = True
    if f is not None:
        if set(f) != set(t):
            part.violation("field-keys", "fast.read:keys", witness,
                           f"template-only {sorted(set(t) - set(f))} fast-only {sorted(set(f) - set(t))}")
            bad = True
        for k in t:
            if k in f:
                r = same(f[k], t[k], k)
                if r:
                    part.violation("field-equal", f"Data.{k}", witness, f"fast vs template: {r}")
                    bad = True
    # normalisation (shared by network and cache path)
    n = None
    try:
        n = objmod.normalize_object_update_compressed_data(p)
    except Exception as e:
        if f is not None:  # otherwise already reported as fast-raises
            part.violation("normalize-agree", "normalize:raises", witness, f"raised {e!r}")
            bad = True
    if n is not None:
        exp = ref_normalize(t)
        if set(n) != set(exp):
            part.violation("normalize-agree", "normalize:keys", witness,
                           f"reference-only {sorted(set(exp) - set(n))} impl-only {sorted(set(n) - set(exp))}")
            bad = True
        for k, ev in exp.items():
            if k in n:
                r = same_norm(n[k], ev, k)
                if r:
                    part.violation("normalize-agree", f"normalize.{k}", witness, f"impl vs reference(template result): {r}")
                    bad = True
        if not generated:
            return "violation" if bad else "ok"
        try:
            blk = Block("ObjectData", UpdateFlags=UPDATE_FLAGS, Data=p)
            Message("ObjectUpdateCompressed", Block("RegionData", RegionHandle=REGION_HANDLE, TimeDilation=65535), blk)
            nn = objmod.normalize_object_update_compressed(blk, REGION_HANDLE)
            exp2 = dict(n, UpdateFlags=UPDATE_FLAGS, RegionHandle=REGION_HANDLE)
            if set(nn) != set(exp2):
                part.violation("network-agree", "network:keys", witness, f"{sorted(set(nn) ^ set(exp2))}")
                bad = True
            for k, ev in exp2.items():
                if k in nn:
                    r = same(force(nn[k]), force(ev), k)
                    if r:
                        part.violation("network-agree", f"network.{k}", witness, r)
                        bad = True
        except Exception as e:
            part.violation("network-agree", "network:raises", witness, f"raised {e!r}")
            bad = True
    return "violation" if bad else "ok"


# --------------------------------------------------------------------------------------------------------- workers
_FACTORS: List[Tuple[str, str, Optional[str], dict]] = []
_REPS: List[Tuple[str, bytes, List[Tuple[int, str]]]] = []
_THOROUGH = False


def gen_case(flags: int, pcode, overrides: Optional[dict], state: int = 0x12) -> Tuple[bytes, List[Tuple[int, str]], dict]:
    """(reference payload, member map, generated dict).  GenFailure = a shared sub-template refused a generated value."""
    ov = dict(overrides or {})
    extra = ov.pop("__extra_flag_bits", 0)
    d = build(flags, pcode, ov, state)
    d["Flags"] = flags | extra
    p, tops = encode(d)
    return p, tops, d


def gen_payload(flags: int, pcode, overrides: Optional[dict], state: int = 0x12) -> Tuple[bytes, List[Tuple[int, str]]]:
    p, tops, _ = gen_case(flags, pcode, overrides, state)
    return p, tops


def gen_failure_violation(sink, e: GenFailure, case: str, gen: dict) -> None:
    sink.count("evaluations")
    sink.count("generation_refused")
    sink.violation("template-encode-raises", f"Data.{e.member}", {"kind": "gen", "case": case, "gen": gen},
                   f"{case}: the shared {e.member} template refused a generated value the wire format can carry: {e.exc!r}")


def run_gen(part: Part, family: str, flags: int, pc_value: int, factor_idx: Optional[int], wire_st: Optional[int]) -> str:
    """Build one generated case (A: baseline, B: content variant, S: State wire value) and judge it."""
    pc = tmpls.PCode(pc_value)
    gen = {"family": family, "flags": flags, "pcode": pc_value, "factor": factor_idx, "state": wire_st}
    if family == "B":
        factor, variant, _, ov = _FACTORS[factor_idx] if _FACTORS else factor_table()[factor_idx]
        case, hint, state = f"B {factor}/{variant} flags={flags:#x} pcode={pc.name}", factor, 0x12
    elif family == "S":
        ov, hint = None, "State"
        case = f"B State/{wire_st:#04x} pcode={pc.name} flags={flags:#x}"
        state = wire_state(pc, wire_st)  # decoded form of the wire byte (the swap is an involution)
    else:
        ov, hint, state, case = None, "baseline", 0x12, f"A flags={flags:#x} pcode={pc.name}"
    try:
        p, tops, d = gen_case(flags, pc, ov, state)
    except GenFailure as e:
        gen_failure_violation(part, e, case, gen)
        return "generation-refused"
    w = {"kind": "payload", "origin": "generated", "hex": p.hex(), "case": case, "tops": tops, "gen": gen}
    return judge(part, p, "generated", hint, w, tops, d)


def _work_flags(chunk: List[int]):
    part = Part()
    for flags in chunk:
        for pc in PCODES:
            res = run_gen(part, "A", flags, int(pc), None, None)
            part.count("A_flag_x_pcode")
            part.outcome(("A", flags, int(pc), res))
            part.mark_nontrivial(("A", flags, int(pc)))
            if flags == 0x155 and pc == tmpls.PCode.PRIMITIVE:
                part.sample({"case": f"A flags={flags:#x} pcode={pc.name}", "result": res}, limit=1)
    return part.dump()


def _work_factor(idx: int):
    part = Part()
    factor, variant, flagname, ov = _FACTORS[idx]
    req = FLAG_VALUE[flagname] if flagname else None
    for flags in flag_cover(req, _THOROUGH):
        pc = PCODES[(flags ^ idx) % len(PCODES)]
        res = run_gen(part, "B", flags, int(pc), idx, None)
        part.count("B_content_cases")
        part.outcome(("B", factor, variant, flags, res))
        part.mark_nontrivial(("B", factor, variant, flags))
        if flags == (req or 0):
            part.sample({"case": f"B {factor}/{variant} flags={flags:#x} pcode={pc.name}", "result": res}, limit=1)
    return part.dump()


def _work_state(pc_index: int):
    part = Part()
    pc = PCODES[pc_index]
    states = range(256) if _THOROUGH else STATE_ALPHABET_QUICK
    covers = flag_cover(None, False) if _THOROUGH else (0, ALL_FLAGS, FLAG_VALUE["PARENT_ID"], FLAG_VALUE["TREE"])
    for st in states:
        for flags in covers:
            res = run_gen(part, "S", flags, int(pc), None, st)
            part.count("B_state_x_pcode")
            part.outcome(("S", int(pc), st, flags, res))
            part.mark_nontrivial(("S", int(pc), st, flags))
    return part.dump()


def substitutions(b: int, thorough: bool) -> List[int]:
    if thorough:
        return [v for v in range(256) if v != b]
    out = []
    for v in (0x00, 0xFF, b ^ 0x01, b ^ 0x80, (b + 1) & 0xFF):
        if v != b and v not in out:
            out.append(v)
    return out


# ------------------------------------------------------------------------------- G: degenerate section contents
# (member, enabling flag, kind): every section whose extent is given by a length prefix, a terminator, a fixed size or EOF
DEGENERATE_SECTIONS = (("TextureAnim", "TEXTURE_ANIM", "u32"), ("TextureEntry", None, "u32"), ("ScratchPad", "SCRATCHPAD", "u32"),
                       ("Text", "TEXT", "cstr"), ("MediaURL", "MEDIA_URL", "cstr"), ("NameValue", "NAME_VALUES", "cstr"),
                       ("PSBlock", "PARTICLES", "sized"), ("PSBlockNew", "PARTICLES_NEW", "sized"), ("ExtraParams", None, "extra"))


def _u32_variants(blob: bytes) -> List[Tuple[str, bytes]]:
    n = len(blob)
    pre = lambda k: struct.pack("<I", k)  # noqa: E731
    out = [("len-0", pre(0)), ("len-1-first-byte", pre(1) + blob[:1]), ("len-1-zero", pre(1) + b"\x00"), ("len-1-ff", pre(1) + b"\xff"),
           ("exact", pre(n) + blob), ("len+1-zero", pre(n + 1) + blob + b"\x00"), ("len+1-ff", pre(n + 1) + blob + b"\xff")]
    if n >= 2:
        out.append(("len-minus-1", pre(n - 1) + blob[:n - 1]))
    return out


def degenerate_variants(member: str, kind: str, base: bytes) -> List[Tuple[str, bytes]]:
    """Wire-first contents for one section; ``base`` = the section's bytes in the baseline payload (prefix / terminator included)."""
    if kind == "u32":
        out = _u32_variants(base[4:])
        if member == "TextureEntry":  # a second, richer blob
            out += [("exceptions:" + n, b) for n, b in _u32_variants(ref_te(te_exceptions()))]
        return out
    if kind == "cstr":
        body = base[:-1]
        out = [("empty", b"\x00"), ("one-char", body[:1] + b"\x00"), ("exact", body + b"\x00"), ("plus-one-char", body + b"x\x00"),
               ("minus-one-char", body[:-1] + b"\x00")]
        if member == "NameValue":
            out += [("trailing-newline", body + b"\n\x00"), ("only-newline", b"\n\x00"), ("name-only", b"FirstName\x00"),
                    ("four-fields", b"FirstName STRING RW DS\x00"), ("four-fields-space", b"FirstName STRING RW DS \x00")]
        return out
    if kind == "sized":
        n = len(base)
        out = [("0-bytes", b""), ("1-byte", base[:1]), ("minus-1", base[:n - 1]), ("exact", base), ("plus-1-zero", base + b"\x00"),
               ("plus-1-ff", base + b"\xff")]
        if member == "PSBlockNew":
            legacy = _shared("PSBlockNew", tmpls.PSBLOCK_TEMPLATE, ps_legacy())
            out += [("legacy-85", legacy[:85]), ("legacy-86", legacy), ("legacy-87", legacy + b"\x00")]
        return out
    # ExtraParams: U8 count, then per entry U16 type, U32 length, blob
    out = [("count-0", b"\x00"), ("count-1-no-entry", b"\x01"), ("count-255-no-entry", b"\xff")]
    for name in ("flexible", "flexible-userforce", "light", "sculpt", "light-image", "mesh", "extended-mesh", "render-material-0",
                 "render-material-2", "reflection-probe"):
        coll = _shared("ExtraParams", tmpls.EXTRA_PARAM_COLLECTION, EXTRA[name])
        head, blob = coll[:3], coll[7:]
        out += [(f"{name}:{n}", head + b) for n, b in _u32_variants(blob)]
        out.append((f"{name}:count-2-one-entry", b"\x02" + coll[1:]))
    return out


def _work_degenerate(si: int):
    part = Part()
    member, flagname, kind = DEGENERATE_SECTIONS[si]
    req = FLAG_VALUE[flagname] if flagname else None
    covers = flag_cover(req, False) if _THOROUGH else [req or 0, ALL_FLAGS]
    for flags in covers:
        pc = tmpls.PCode.PRIMITIVE
        try:
            d = build(flags, pc, None)
            base_p, base_tops = encode(d)
            i = next(j for j, (_, m) in enumerate(base_tops) if m == member)
            end = base_tops[i + 1][0] if i + 1 < len(base_tops) else len(base_p)
            variants = degenerate_variants(member, kind, base_p[base_tops[i][0]:end])
        except GenFailure as e:
            gen_failure_violation(part, e, f"G {member} flags={flags:#x}", {"family": "G", "member": member, "flags": flags})
            continue
        for label, rawbytes in variants:
            q, _ = encode(d, {member: rawbytes})
            w = {"kind": "payload", "origin": "mutated", "hex": q.hex(), "case": f"G degenerate ({member}) {label} flags={flags:#x}"}
            res = judge(part, q, "mutated", member, w)
            part.count("G_degenerate_sections")
            part.outcome(("G", member, label, flags, res))
            if res in ("ok", "violation"):
                part.count("G_degenerate_wellformed")
                part.mark_nontrivial(("G", member, label, flags))
            if flags == (req or 0) and label in ("len-0", "empty", "0-bytes", "count-0"):
                part.sample({"case": w["case"], "payload_len": len(q), "result": res}, limit=1)
    return part.dump()


def _work_mutate(item: Tuple[int, int, int]):
    ri, lo, hi = item
    part = Part()
    name, p, tops = _REPS[ri]
    if lo == 0:  # the representative itself, with the template clauses asserted
        w = {"kind": "payload", "origin": "generated", "hex": p.hex(), "case": f"C rep/{name} unmodified", "tops": tops}
        res = judge(part, p, "generated", "representative", w, tops)
        part.count("C_representatives")
        part.outcome(("R", ri, res))
        part.mark_nontrivial(("R", ri))
    for off in range(lo, hi):
        m = member_at(tops, off)
        for v in substitutions(p[off], _THOROUGH):
            q = p[:off] + bytes((v,)) + p[off + 1:]
            w = {"kind": "payload", "origin": "mutated", "hex": q.hex(), "case": f"C rep={name} offset={off} ({m}) {p[off]:#04x}->{v:#04x}"}
            res = judge(part, q, "mutated", m, w)
            part.count("C_substitutions")
            part.outcome(("C", ri, m, res))
            if res in ("ok", "violation"):
                part.mark_nontrivial(("C", ri, off, v))
        # truncation to this offset (proper prefix)
        q = p[:off]
        w = {"kind": "payload", "origin": "mutated", "hex": q.hex(), "case": f"C rep={name} truncated to {off} (inside {m})"}
        res = judge(part, q, "mutated", m, w)
        part.count("C_truncations")
        part.outcome(("T", ri, m, res))
        if res in ("ok", "violation"):
            part.mark_nontrivial(("T", ri, off))
    if hi == len(p):
        for v in (0x00, 0x01, 0xFF):
            q = p + bytes((v,))
            w = {"kind": "payload", "origin": "mutated", "hex": q.hex(), "case": f"C rep={name} extended by {v:#04x}"}
            res = judge(part, q, "mutated", "trailing", w)
            part.count("C_extensions")
            part.outcome(("X", ri, v, res))
            if res in ("ok", "violation"):
                part.mark_nontrivial(("X", ri, v))
    return part.dump()


_GEN_FAILURES: Dict[str, GenFailure] = {}


def representatives() -> List[Tuple[str, bytes, List[Tuple[int, str]]]]:
    P = tmpls.PCode
    specs: List[Tuple[str, int, Any, dict, int]] = [("no-sections/prim", 0, P.PRIMITIVE, {}, 0x12),
                                                    ("all-sections/prim", ALL_FLAGS, P.PRIMITIVE, {}, 0x21)]
    pcs = [P.PRIMITIVE, P.AVATAR, P.GRASS, P.NEW_TREE, P.PARTICLE_SYSTEM, P.TREE]
    for i, (name, v) in enumerate(FLAG_LIST):
        specs.append((f"only-{name}", v, pcs[i % 6], {}, 0x14))
    F = FLAG_VALUE
    specs += [
        ("avatar name-values+text", F["NAME_VALUES"] | F["TEXT"] | F["PARENT_ID"], P.AVATAR,
         {"NameValue": NameValueCollection([nv(), nv("LastName", value="Resident"), nv("Title", value="a b")]), "Text": "hé \U0001d532"}, 0x14),
        ("tree species", F["TREE"] | F["SCRATCHPAD"], P.TREE, {"TextureEntry": None}, 3),
        ("extra two", F["ANGULAR_VELOCITY"], P.PRIMITIVE, {"ExtraParams": EXTRA["two:light+sculpt"]}, 0x12),
        ("extra three", F["SOUND"], P.PRIMITIVE, {"ExtraParams": EXTRA["three"]}, 0x12),
        ("extra flexible-userforce", F["TEXTURE_ANIM"], P.PRIMITIVE, {"ExtraParams": EXTRA["flexible-userforce"]}, 0x12),
        ("te exceptions", F["TEXTURE_ANIM"] | F["PARENT_ID"], P.PRIMITIVE, {"TextureEntry": te_exceptions()}, 0xF0),
        ("te high faces", 0, P.PRIMITIVE, {"TextureEntry": te_high_faces()}, 0x12),
        ("te no materials + new particles", F["PARTICLES_NEW"], P.PRIMITIVE, {"TextureEntry": te_no_materials()}, 0x12),
        ("psnew legacy-86", F["PARTICLES_NEW"] | F["PARTICLES"], P.PRIMITIVE, {"PSBlockNew": ps_legacy(CRC=0x0F0E0D0C)}, 0x12),
        ("psnew glow+blend", F["PARTICLES_NEW"] | F["MEDIA_URL"], P.PARTICLE_SYSTEM, {"PSBlockNew": ps_new(0x30003)}, 0),
        ("psnew empty", F["PARTICLES_NEW"] | F["TEXT"], P.PRIMITIVE, {"PSBlockNew": TaggedUnion(0, None), "Text": ""}, 0x12),
        ("text+media multibyte", F["TEXT"] | F["MEDIA_URL"] | F["SOUND"], P.PRIMITIVE, {"Text": "✓ 日", "MediaURL": "http://é/"}, 0x12),
        ("scratchpad-0 + tree", F["SCRATCHPAD"] | F["TREE"] | F["PARENT_ID"], P.NEW_TREE, {"ScratchPad": b""}, 7),
        ("attachment all-but-particles", ALL_FLAGS & ~F["PARTICLES"] & ~F["PARTICLES_NEW"], P.PRIMITIVE, {"OwnerID": UUID()}, 0x80),
        ("avatar all sections", ALL_FLAGS, P.AVATAR, {"ExtraParams": EXTRA["sculpt"]}, 0x04),
        ("unknown flag bits", F["PARENT_ID"] | F["SOUND"], P.GRASS, {"__extra_flag_bits": FREE_BITS[0] | FREE_BITS[-1]}, 9),
        ("render-material + nv two", F["NAME_VALUES"], P.PRIMITIVE,
         {"ExtraParams": EXTRA["render-material-2"], "NameValue": NameValueCollection([nv(), nv("LastName", value="R")])}, 0x12),
        ("odd sections", 0x555, P.PRIMITIVE, {}, 0x12),
        ("even sections", 0x2AA, P.PRIMITIVE, {}, 0x12),
    ]
    reps = []
    for i, (name, flags, pc, ov, st) in enumerate(specs):
        ov = dict(ov)
        ov["ID"] = 1000 + i  # distinct local IDs so that all representatives live in one cache file
        ov["CRC"] = 0x5000 + i
        try:
            p, tops = gen_payload(flags, pc, ov, st)
        except GenFailure as e:  # reported once by run(); the representative is left out
            _GEN_FAILURES[f"representative {name}"] = e
            continue
        reps.append((name, p, tops))
    return reps


def check_cache_path(run_or_part, reps) -> None:
    """D: representatives written to a .slc file and read back by the cache reader (private temp dir, removed)."""
    with tempfile.TemporaryDirectory(prefix="c13-slc-") as d:
        path = os.path.join(d, "objects_1000_1002.slc")
        buf = bytearray(U(40).bytes + struct.pack("<i", len(reps)))
        meta = []
        for name, p, _ in reps:
            local_id, crc = struct.unpack_from("<I", p, 16)[0], struct.unpack_from("<I", p, 22)[0]
            buf += struct.pack("<IIiiii", local_id, crc, 1, 0, 0, len(p)) + p
            meta.append((name, local_id, crc, p))
        with open(path, "wb") as fh:
            fh.write(buf)
        try:
            cache = RegionViewerObjectCache.from_file(path)
        except Exception as e:
            run_or_part.count("evaluations")
            run_or_part.violation("cache-bytes", "RegionViewerObjectCache.from_file", {"kind": "cache", "rep": meta[0][0] if meta else ""},
                                  f"reading a well-formed .slc file with {len(meta)} entries raised {e!r}")
            return
    for name, local_id, crc, p in meta:
        run_or_part.count("evaluations")
        run_or_part.count("D_cache_entries")
        w = {"kind": "cache", "rep": name}
        try:
            got = cache.lookup_object_data(local_id, crc)
        except Exception as e:
            run_or_part.violation("cache-bytes", "RegionViewerObjectCache.lookup_object_data", w, f"raised {e!r}")
            continue
        if got is None or bytes(got) != p:
            run_or_part.violation("cache-bytes", "RegionViewerObjectCache.lookup_object_data", w,
                                  f"entry ({local_id}, {crc:#x}): cache returned {None if got is None else bytes(got)[:24].hex()}..., "
                                  f"file holds {p[:24].hex()}...")
            continue
        try:
            a, b = objmod.normalize_object_update_compressed_data(got), objmod.normalize_object_update_compressed_data(p)
        except Exception:
            continue  # judged in C (every representative is also evaluated there)
        for k in b:
            r = same(force(a.get(k)), force(b[k]), k)
            if r:
                run_or_part.violation("cache-bytes", f"cache-normalize.{k}", w, r)
        run_or_part.mark_nontrivial(("D", name))


# ------------------------------------------------------------------------------------------- E: decode histories
_HIST: List[Tuple[str, bytes]] = []
SOURCES = ("fast", "template", "normalize")


def _alter(v: Any) -> Any:
    """A different immutable value of the same kind."""
    if isinstance(v, bool):
        return not v
    if isinstance(v, int):
        return int(v) + 1
    if isinstance(v, float):
        return v + 1.5 if v == v else 0.0
    if isinstance(v, str):
        return v + "~edited"
    if isinstance(v, (bytes, bytearray)):
        return bytes(b ^ 0xFF for b in v) or b"\x01"
    if isinstance(v, UUID):
        return UUID(int=v.int ^ 1)
    return v


def _is_container(v: Any) -> bool:
    return isinstance(v, (dict, list, TupleCoord, TaggedUnion)) or (dataclasses.is_dataclass(v) and not isinstance(v, type))


def scramble(x: Any, memo: Optional[set] = None) -> None:
    """Deep in-place edit of everything mutable reachable from x (what a consumer of a decode result is free to do)."""
    memo = set() if memo is None else memo
    x = force(x)
    if id(x) in memo or not _is_container(x):
        return
    memo.add(id(x))
    if isinstance(x, dict):
        for k in list(x.keys()):
            v = force(x[k])
            if _is_container(v):
                scramble(v, memo)
            else:
                x[k] = _alter(v)
        # structural edit: one more entry (for a TE field dict this is a new per-face exception)
        sample = next((force(v) for v in x.values() if not _is_container(force(v)) and v is not None), 1)
        try:
            x[(40, 41)] = sample
        except Exception:
            pass
    elif isinstance(x, list):
        for i, v in enumerate(list(x)):
            v = force(v)
            if _is_container(v):
                scramble(v, memo)
            else:
                x[i] = _alter(v)
        x.reverse()
        x.append(x[0] if x else "edited")
    elif isinstance(x, (TupleCoord, TaggedUnion)) or dataclasses.is_dataclass(x):
        names = [f.name for f in dataclasses.fields(x)] if dataclasses.is_dataclass(x) else list(type(x).__fields__)
        for n in names:
            v = force(getattr(x, n))
            if _is_container(v):
                scramble(v, memo)
            else:
                try:
                    setattr(x, n, _alter(v))
                except Exception:
                    pass


def twin_of(p: bytes) -> bytes:
    """Same sections byte for byte, another object: FullID, LocalID and CRC differ."""
    lid, crc = struct.unpack_from("<I", p, 16)[0], struct.unpack_from("<I", p, 22)[0]
    return U(33).bytes + struct.pack("<I", lid ^ 0x10000) + p[20:22] + struct.pack("<I", crc ^ 0xFFFF) + p[26:]


def shifted_of(p: bytes) -> bytes:
    """Another object whose shared sections (TE, ExtraParams, NameValue, particles, text) carry the same bytes at other offsets."""
    t = SER.deserialize(None, p)
    t = {k: copy.deepcopy(force(v)) for k, v in t.items()}
    fl = int(t["Flags"])
    for name in ("ANGULAR_VELOCITY", "PARENT_ID"):
        bit = FLAG_VALUE[name]
        fl ^= bit
        for k, v in SECTION_BASE[name].items():
            t[k] = v if fl & bit else None
    t["Flags"] = fl
    t["FullID"], t["ID"], t["CRC"] = U(34), int(t["ID"]) ^ 0x20000, int(t["CRC"]) ^ 0xFF00
    t["Position"] = Vector3(1.0, 2.0, 3.0)
    return SER.serialize(None, t)


def _decode_with(which: str, q: bytes, cache: Optional[RegionViewerObjectCache] = None) -> Dict[str, Any]:
    if which == "fast":
        return FAST.read(q)
    if which == "template":
        return SER.deserialize(None, q)
    if which == "cache-normalize":
        lid, crc = struct.unpack_from("<I", q, 16)[0], struct.unpack_from("<I", q, 22)[0]
        data = cache.lookup_object_data(lid, crc)
        if data is None:
            raise LookupError(f"cache file has no entry for ({lid}, {crc:#x}) although it was written")
        return objmod.normalize_object_update_compressed_data(data)
    return objmod.normalize_object_update_compressed_data(q)


SITE_PREFIX = {"fast": "fast.read", "template": "template", "normalize": "normalize", "cache-normalize": "cache-normalize"}


def canonical_reference(part: Part, label: str, tname: str, q: bytes, kind: str) -> Tuple[Optional[Dict[str, Any]], bool]:
    """(pristine deep copy of the template's decoding of q | None, q re-encodes to itself).  A payload of the generated domain
    that the template cannot decode, or does not re-encode to itself, is the property's template-decode / reencode clause."""
    w = {"kind": "payload", "origin": "generated", "hex": q.hex(), "case": f"{kind} {label} ({tname} payload)"}
    try:
        t = SER.deserialize(None, q)
        ref = {k: copy.deepcopy(force(v)) for k, v in t.items()}
    except Exception as e:
        part.violation("template-decode", f"Data.{kind}-history", w, f"template cannot decode the {tname} payload of {label}: {e!r}")
        return None, False
    enc, member, exc = template_encode(ref)
    if exc is not None:
        part.violation("reencode", f"Data.{member}", w, f"template.serialize(template.deserialize(p)) raised at {member}: {exc!r}")
        return ref, False
    if enc != q:
        i = next((j for j in range(min(len(q), len(enc))) if q[j] != enc[j]), min(len(q), len(enc)))
        w2 = se.MemberTrackingBufferWriter("<")
        w2.write(SER.TEMPLATE, ref)
        tops2 = [(pos, st[0]) for pos, st in w2.member_positions if len(st) == 1]
        m = member_at(tops2, i)
        part.violation("reencode", f"Data.{m}", w, f"{label} ({tname} payload): re-encoding differs at offset {i} (member {m}): payload "
                                                    f"{len(q)} B ...{q[max(0, i - 2):i + 6].hex()}, re-encoded {len(enc)} B ...{enc[max(0, i - 2):i + 6].hex()}")
        return ref, False
    return ref, True


def run_history(part: Part, label: str, p: bytes, source: str) -> None:
    targets = [("same", p), ("twin", twin_of(p))]
    try:
        targets.append(("shifted", shifted_of(p)))
    except Exception:
        part.count("E_shifted_partner_unavailable")  # the template could not decode / re-encode p: judged just below for p itself
    # pristine references, deep-copied so that nothing the decoders may share can reach them
    refs: Dict[str, Dict[str, Any]] = {}
    canonical: Dict[str, bool] = {}
    for tname, q in list(targets):
        ref, canon = canonical_reference(part, label, tname, q, "decode")
        if ref is None:
            targets.remove((tname, q))
            continue
        refs[tname], canonical[tname] = ref, canon
    if "same" not in refs:
        part.count("evaluations")
        part.count("E_histories")
        return
    with tempfile.TemporaryDirectory(prefix="c13-hist-") as d:
        path = os.path.join(d, "objects_1000_1002.slc")
        buf = bytearray(U(40).bytes + struct.pack("<i", len(targets)))
        for _, q in targets:
            buf += struct.pack("<IIiiii", struct.unpack_from("<I", q, 16)[0], struct.unpack_from("<I", q, 22)[0], 1, 0, 0, len(q)) + q
        with open(path, "wb") as fh:
            fh.write(buf)
        try:
            cache = RegionViewerObjectCache.from_file(path)
        except Exception as e:
            cache = None
            part.violation("cache-bytes", "RegionViewerObjectCache.from_file", {"kind": "history", "label": label, "hex": p.hex(), "source": source},
                           f"reading a well-formed .slc file with {len(targets)} entries raised {e!r}")
    decoders = ["fast", "template"]
    if not (NORMALIZE_READS - set(refs["same"])):  # otherwise reported as field-keys@template:keys by the main families
        decoders += ["normalize"] + (["cache-normalize"] if cache is not None else [])
    # step 1 + 2: decode, then edit the result in place
    try:
        r1 = _decode_with(source, p)
        for k in list(r1):
            r1[k] = force(r1[k])
    except HarnessError:
        raise
    except Exception as e:
        # the template accepted this canonical payload above: a decoder that rejects it is a disagreement, not a harness fault
        part.count("evaluations")
        part.count("E_histories")
        part.violation("decode-independent", f"{SITE_PREFIX[source]}:raises",
                       {"kind": "history", "label": label, "hex": p.hex(), "source": source, "decoder": source, "target": "same"},
                       f"first decode of the canonical payload {label} with {source} raised {e!r} (the declarative template decodes and re-encodes it)")
        return
    scramble(r1)
    part.count("E_histories")
    # step 3: every decoder, every payload sharing bytes with p
    for dec in decoders:
        for tname, q in targets:
            part.count("evaluations")
            part.count("E_decodes_after_edit")
            w = {"kind": "history", "label": label, "hex": p.hex(), "source": source, "decoder": dec, "target": tname}
            pre = SITE_PREFIX[dec]
            bad = False
            try:
                r = _decode_with(dec, q, cache)
                for k in list(r):
                    r[k] = force(r[k])
            except HarnessError:
                raise
            except Exception as e:
                part.violation("decode-independent", f"{pre}:raises", w,
                               f"after an in-place edit of {source}({label}) the decoder raised on the {tname} payload: {e!r}")
                part.outcome(("E", label, source, dec, tname, "raises"))
                continue
            ref = refs[tname]
            exp = ref if dec in ("fast", "template") else ref_normalize(ref)
            if set(r) != set(exp):
                part.violation("decode-independent", f"{pre}:keys", w, f"{sorted(set(r) ^ set(exp))}")
                bad = True
            for k, ev in exp.items():
                if k in r:
                    msg = same_norm(r[k], ev, k)
                    if msg:
                        part.violation("decode-independent", f"{pre}:{k}", w,
                                       f"history: r1 = {source}(p); r1 edited in place; then {dec}({tname} payload) no longer matches the "
                                       f"wire bytes: {msg}")
                        bad = True
            if dec in ("fast", "template") and canonical[tname]:
                try:
                    enc = SER.serialize(None, r)
                except Exception as e:
                    enc = repr(e)
                if enc != q:
                    part.violation("decode-independent", f"{pre}:reencode", w,
                                   f"after an in-place edit of {source}({label}), template.serialize({dec}({tname} payload)) != payload")
                    bad = True
            part.outcome(("E", label, source, dec, tname, "violation" if bad else "ok"))
            if not bad:
                part.mark_nontrivial(("E", label, source, dec, tname))


def _work_history(item: Tuple[int, str]):
    hi, source = item
    part = Part()
    label, p = _HIST[hi]
    run_history(part, label, p, source)
    if hi == 1 and source == "fast":
        part.sample({"case": f"E history rep={label} source={source}", "decoders": 4, "targets": 3}, limit=1)
    return part.dump()


# ------------------------------------------------------------------------------------------- F: encode histories
def _leaf_spec(spec: Any) -> Any:
    try:
        if isinstance(spec, se.OptionalFlagged):
            spec = priv(spec, "_ser_spec", "spec", index=-1)
        seen = 0
        while isinstance(spec, se.Adapter) and seen < 8:
            child = adapter_child(spec)
            if child is None:
                break
            spec = child
            seen += 1
    except IntrospectionError:
        pass
    return spec


def bad_values_for(spec: Any) -> List[Tuple[str, Any]]:
    """Out-of-domain values for one template member, derived from its spec (whether they really fail is probed)."""
    out: List[Tuple[str, Any]] = [("object", object())]
    leaf = _leaf_spec(spec)
    if isinstance(leaf, se.SerializablePrimitive):
        if isinstance(leaf.default_value(), float):
            out.append(("1e40", 1e40))
        else:
            out.append(("max+1", leaf.max_val + 1))
            out.append(("min-1", leaf.min_val - 1))
    if isinstance(leaf, se.BytesFixed):
        out.append(("short-bytes", b"\x00" * max(0, leaf.calc_size() - 1)))
    return out


def _probe_fails_after_writing(template: Any, value: Any) -> bool:
    w = se.BufferWriter("<")
    try:
        w.write(template, value)
    except Exception:
        return len(w.buffer) > 0
    return False


def foreign_failures() -> List[Tuple[str, Any, Any]]:
    TA = tmpls.TextureAnim
    cands = [
        ("TextureAnimSerializer", tmpls.TextureAnimSerializer,
         TA(Mode=tmpls.TextureAnimMode.ON, Face=1000, SizeX=1, SizeY=1, Start=0.0, Length=1.0, Rate=1.0)),
        ("ObjectUpdateExtraParamsSerializer", tmpls.ObjectUpdateExtraParamsSerializer,
         {EP.SCULPT: EXTRA["sculpt"][EP.SCULPT], EP.LIGHT: {"Color": b"\x01\x02\x03\x04", "Radius": "x", "Cutoff": 0.5, "Falloff": 0.75}}),
        ("ImprovedTerseObjectUpdateDataSerializer", tmpls.ImprovedTerseObjectUpdateDataSerializer, {"ID": 1, "State": 300}),
        ("PSBlockSerializer", tmpls.PSBlockSerializer, TaggedUnion(86, {"PSys": psys(BurstPartCount=999), "PData": pdata()})),
    ]
    return [(n, ser, v) for n, ser, v in cands if ser.ENDIANNESS == "<" and _probe_fails_after_writing(ser.TEMPLATE, v)]


def failing_edits(d: Dict[str, Any]) -> Dict[str, Dict[str, Any]]:
    """op name -> edited copy of d on which template.serialize raises after having written at least one byte."""
    out: Dict[str, Dict[str, Any]] = {}
    for member, spec in template_members(SER.TEMPLATE):
        for kind, bad in bad_values_for(spec):
            dd = dict(d)
            dd[member] = bad
            if _probe_fails_after_writing(SER.TEMPLATE, dd):
                out[f"fail:{member}:{kind}"] = dd
    return out


def encode_history_ops(edits: Dict[str, Any], foreign: List[Tuple[str, Any, Any]]) -> List[str]:
    ops: List[str] = []
    names = list(edits)
    for n in names:
        ops += [n, "check"]
    if len(names) >= 3:
        ops += [names[0], names[len(names) // 2], names[-1], "check", "check"]
    for fn, _, _ in foreign:
        ops += [f"foreign:{fn}", "check"]
    if foreign and names:
        ops += [f"foreign:{foreign[0][0]}", names[-1], "check", names[0], f"foreign:{foreign[-1][0]}", "check"]
    return ops


def run_encode_history(part: Part, label: str, p: bytes, ops: Optional[List[str]] = None) -> None:
    part.count("F_histories")
    ref, canon = canonical_reference(part, label, "same", p, "encode")
    if ref is None or not canon:
        part.count("evaluations")
        part.count("F_histories_skipped_noncanonical")  # reported as template-decode / reencode by canonical_reference
        return
    d = {k: force(v) for k, v in SER.deserialize(None, p).items()}
    edits = failing_edits(d)
    foreign = foreign_failures()
    fmap = {f"foreign:{n}": (ser, v) for n, ser, v in foreign}
    if ops is None:
        if len(edits) < 20 or not foreign:
            part.count("F_histories_thin")  # the implementation rejects (almost) nothing any more: noted in the evidence
        ops = encode_history_ops(edits, foreign)
    part.count("F_failing_edits", len(edits))
    done: List[str] = []
    last_fail = "none"
    for op in ops:
        done.append(op)
        if op != "check":
            try:
                if op in fmap:
                    fmap[op][0].serialize(None, fmap[op][1])
                elif op in edits:
                    SER.serialize(None, edits[op])
                else:
                    part.count("F_ops_unavailable_on_this_tree")  # a replayed op this tree does not reject any more
                    continue
                part.count("F_expected_failures_that_succeeded")
            except Exception:
                part.count("F_failed_encodes")
            last_fail = op
            continue
        part.count("evaluations")
        part.count("F_checks")
        w = {"kind": "encode-history", "label": label, "hex": p.hex(), "ops": list(done)}
        which = "none" if last_fail == "none" else (last_fail if last_fail.startswith("foreign:") else "compressed-member")
        bad = False
        try:
            enc = SER.serialize(None, d)
        except Exception as e:
            enc = None
            part.violation("encode-independent", f"template.serialize:after-failed-encode:{which}", w,
                           f"after the failed encode {last_fail!r} the next encode of the untouched decoding raised {e!r}")
            bad = True
        if enc is not None and enc != p:
            i = next((j for j in range(min(len(p), len(enc))) if p[j] != enc[j]), min(len(p), len(enc)))
            part.violation("encode-independent", f"template.serialize:after-failed-encode:{which}", w,
                           f"after the failed encode {last_fail!r}: template.serialize(template.deserialize(p)) is {len(enc)} B, payload "
                           f"{len(p)} B, first difference at offset {i}: {enc[i:i + 8].hex()} vs {p[i:i + 8].hex()}")
            bad = True
        for dname, fn in (("template.deserialize", lambda: SER.deserialize(None, p)), ("fast.read", lambda: FAST.read(p))):
            try:
                r = fn()
                msgs = [m for m in (same(force(r[k]), ref[k], k) if k in r else f"{k} missing" for k in ref) if m]
                if set(r) != set(ref):
                    msgs.append(f"keys {sorted(set(r) ^ set(ref))}")
            except Exception as e:
                msgs = [f"raised {e!r}"]
            if msgs:
                part.violation("encode-independent", f"{dname}:after-failed-encode", w, f"after {last_fail!r}: {msgs[0]}")
                bad = True
        part.outcome(("F", label, len(done), which, "violation" if bad else "ok"))
        if not bad:
            part.mark_nontrivial(("F", label, len(done)))


def _work_encode_history(hi: int):
    part = Part()
    label, p = _HIST[hi]
    run_encode_history(part, label, p)
    if hi == 1:
        part.sample({"case": f"F encode history {label}", "failing_edits": part.counters.get("F_failing_edits"),
                     "checks": part.counters.get("F_checks")}, limit=1)
    return part.dump()


def fresh_process_map(fn, items, jobs: int):
    """Ordered map, one freshly forked process per item: an in-place edit made by one history can never reach another."""
    import multiprocessing as mp
    items = list(items)
    ctx = mp.get_context("fork")
    with ctx.Pool(max(1, min(jobs, len(items))), maxtasksperchild=1) as pool:
        return pool.map(fn, items, chunksize=1)


def history_inputs(thorough: bool) -> List[Tuple[str, bytes]]:
    out = [(f"rep/{name}", p) for name, p, _ in representatives()]
    if thorough:
        for i, (factor, variant, flagname, ov) in enumerate(factor_table()):
            flags = FLAG_VALUE[flagname] if flagname else 0
            try:
                p, _ = gen_payload(flags, PCODES[i % len(PCODES)], ov)
            except GenFailure:
                continue  # reported by family B for the same variant
            out.append((f"variant/{factor}/{variant}", p))
    return out


# ------------------------------------------------------------------------------------------------------------ run
def run(run: Run):
    global _FACTORS, _REPS, _THOROUGH, _HIST
    _THOROUGH = run.tier == "thorough"
    _FACTORS = factor_table()
    _REPS = representatives()
    _HIST = history_inputs(_THOROUGH)
    # guard: the template and the harness agree on the set of members (a template that gains a member must be looked at)
    known = set(header(tmpls.PCode.PRIMITIVE)) | {"Flags"} | {k for s in SECTION_BASE.values() for k in s}
    tmpl_members = set(SER.TEMPLATE.keys())
    missing = tmpl_members - known
    if missing:
        # not a harness error: the generator simply cannot fill the new member; the fast reader is judged by field-keys
        run.notes.append(f"template has members the generator does not fill: {sorted(missing)}")
    if FLAGS_UNKNOWN_TO_HARNESS:
        run.notes.append(f"CompressedFlags has members the generator never sets: {FLAGS_UNKNOWN_TO_HARNESS}")
    if FLAGS_DIFFERENT_IN_CODE:
        run.notes.append(f"CompressedFlags members differ from the wire constants the generator uses: {FLAGS_DIFFERENT_IN_CODE}")
    for what, e in _GEN_FAILURES.items():
        gen_failure_violation(run, e, what, {"family": "rep", "what": what})

    flag_chunks = [list(range(i, min(i + 32, 1 << len(FLAG_LIST)))) for i in range(0, 1 << len(FLAG_LIST), 32)]
    # map dense index -> flag value (CompressedFlags bits are contiguous today; do not rely on it)
    bitvals = [v for _, v in FLAG_LIST]

    def to_flags(i: int) -> int:
        f = 0
        for j, b in enumerate(bitvals):
            if i >> j & 1:
                f |= b
        return f

    flag_chunks = [[to_flags(i) for i in ch] for ch in flag_chunks]
    for d in pmap(_work_flags, flag_chunks, run.jobs):
        run.merge(d)
    for d in pmap(_work_factor, list(range(len(_FACTORS))), run.jobs, chunksize=1):
        run.merge(d)
    for d in pmap(_work_state, list(range(len(PCODES))), run.jobs, chunksize=1):
        run.merge(d)
    step = 8 if _THOROUGH else 48
    items = []
    for ri, (_, p, _) in enumerate(_REPS):
        for lo in range(0, len(p), step):
            items.append((ri, lo, min(lo + step, len(p))))
    for d in pmap(_work_mutate, items, run.jobs):
        run.merge(d)
    for d in pmap(_work_degenerate, list(range(len(DEGENERATE_SECTIONS))), run.jobs, chunksize=1):
        run.merge(d)
    check_cache_path(run, _REPS)
    for d in fresh_process_map(_work_history, [(hi, src) for hi in range(len(_HIST)) for src in SOURCES], run.jobs):
        run.merge(d)

    for d in fresh_process_map(_work_encode_history, list(range(len(_HIST))), run.jobs):
        run.merge(d)

    c = run.counters
    # Internal consistency only: every planned history was started (a history that ends early reports a violation and still counts).
    if c.get("F_histories", 0) != len(_HIST):
        raise HarnessError("encode histories did not all run")
    if c.get("E_histories", 0) != len(_HIST) * len(SOURCES):
        raise HarnessError("decode histories did not all run")
    # Vacuity guards are harness errors only on a tree that reports no violation (a broken decoder legitimately judges less).
    if not run.violations:
        if c.get("F_failed_encodes", 0) == 0:
            raise HarnessError("vacuous: no failing encode was produced")
        if c.get("wellformed", 0) < c.get("A_flag_x_pcode", 0) or c.get("compared", 0) == 0:
            raise HarnessError("vacuous: generated payloads were not judged")
    for k, text in (("F_expected_failures_that_succeeded", "encodes that a private probe saw fail succeeded through the serializer"),
                    ("F_histories_thin", "encode histories with < 20 failing edits or no foreign failing encode"),
                    ("F_histories_skipped_noncanonical", "encode histories skipped because the payload is not canonical (reported as reencode)"),
                    ("E_shifted_partner_unavailable", "decode histories without a shifted partner")):
        if c.get(k):
            run.notes.append(f"{c[k]} {text}")
    run.coverage_extra.update(
        representatives=len(_REPS), representative_bytes=sum(len(p) for _, p, _ in _REPS), content_variants=len(_FACTORS),
        flag_combinations=1 << len(FLAG_LIST), pcodes=len(PCODES),
        mutated_wellformed=c.get("wellformed", 0) - c.get("A_flag_x_pcode", 0) - c.get("B_content_cases", 0) - c.get("B_state_x_pcode", 0) - c.get("C_representatives", 0),
    )
    run.rule = (
        "A: all %d section-flag combinations x %d PCode members with baseline contents; B: %d content variants (text/media empty, ascii, "
        "2/3/4-byte UTF-8, 300 B; scratchpad 0/1/4/300; ExtraParams none, each of 8 types, 2 and 3 params; NameValue empty/1/2/3 entries; "
        "legacy and variable particle blocks incl. glow/blend and empty; TextureEntry none/default/exceptions/multi-byte face masks/no "
        "materials; TextureAnim; sound; header extremes, NaN/inf/-0.0, unknown flag bits), each under %s flag combinations that enable its "
        "section; State: %s wire values x 6 PCodes; C: %s single-byte substitutions at every offset, every truncation and 3 one-byte "
        "extensions of %d representative payloads (%d bytes); G: %d degenerate section contents (zero / one byte / length-1 / exact / length+1 for "
        "every length-prefixed, terminated, fixed-size or to-EOF section and every ExtraParams entry, built wire-first), %d of them "
        "well-formed; D: the representatives through a .slc cache file; E: %d decode histories (%d payloads x 3 source decoders: decode, deep in-place "
        "edit of the result, then fast / template / normaliser / normaliser-over-cache-file decode the same payload, a twin and a "
        "shifted payload sharing its section bytes; one forked process per history); F: %d encode histories (one per payload and process): "
        "%d failed encodes (every template member x out-of-domain values that make template.serialize raise after >= 1 byte, plus 4 "
        "other subfield serializers), each followed by %d checks that template.serialize(decoding) == payload and both decoders are "
        "unaffected. distinct_nontrivial = "
        "distinct well-formed (case, flags, pcode | representative, offset, value) inputs on which both decoders were compared"
        % (1 << len(FLAG_LIST), len(PCODES), len(_FACTORS), "all 2^10/2^11" if _THOROUGH else "22-24 covering (alone, all, +1, all-1)",
           "all 256" if _THOROUGH else str(len(STATE_ALPHABET_QUICK)), "all 255" if _THOROUGH else "5",
           len(_REPS), sum(len(p) for _, p, _ in _REPS), c.get("G_degenerate_sections", 0), c.get("G_degenerate_wellformed", 0),
           len(_HIST) * len(SOURCES), len(_HIST),
           len(_HIST), c.get("F_failed_encodes", 0), c.get("F_checks", 0)))
    run.assumptions += [
        "domain = payloads the template's own serialize emits from generated dicts, plus single-byte substitutions / truncations / "
        "one-byte extensions of 32 of them; a mutated payload is judged only if the template decodes it and re-encodes it to itself",
        "PCode outside the PCode enum is out of the asserted domain (fast reader raises ValueError, template returns the int): counted in "
        "pcode_outside_enum*, not asserted",
        "equality: enums/flags by integer value (fast path returns plain ints for Material and Flags), dataclasses by class+fields, "
        "lazy proxies forced, floats bit-exact, dict members in wire order",
        "reference normalisation is a plain-Python restatement of the defaults documented in normalize_object_update_compressed_data "
        "applied to the template's result; an absent Text/TextColor/MediaURL may be b'' or '' (the code writes b'')",
        "decode histories: depth 3 (decode, edit, decode), one edit pattern that touches every mutable member reachable from the "
        "result; histories are independent (fresh forked process each); the pristine reference is a deep copy of the template's "
        "decoding taken before the edit and checked to re-encode to the payload",
        "encode histories: failures are single-member out-of-domain edits of a decoded value (and 4 fixed bad values for other "
        "subfield serializers) that a private probe confirms to raise after partial output; up to 3 consecutive failures before a check; "
        "one process per payload, the witness is the executed op prefix",
        "the wire layout of the fixed part (header, prim parameters, section bits, simple sections) is the harness's own table, taken "
        "from the protocol, the TextureEntry included (canonical face sets, quantisers restated; generator values avoid rounding "
        "boundaries); ExtraParams / particle sections are encoded by the sub-templates both decoders share "
        "(a defect common to both decoders inside those sub-templates is visible only through the reencode clause)",
        "trusted: struct, lazy_object_proxy, copy.deepcopy, the harness's comparison function and wire layout table",
    ]


def replay(w):
    part = Part()
    if w.get("kind") == "cache":
        reps = [r for r in representatives() if r[0] == w["rep"]]
        check_cache_path(part, reps)
        return list(part.viol.values())
    if w.get("kind") == "encode-history":
        hp = w["hex"] if isinstance(w["hex"], (bytes, bytearray)) else bytes.fromhex(w["hex"])
        run_encode_history(part, str(w.get("label")), hp, [str(o) for o in w["ops"]])
        return list(part.viol.values())
    if w.get("kind") == "history":
        hp = w["hex"] if isinstance(w["hex"], (bytes, bytearray)) else bytes.fromhex(w["hex"])
        run_history(part, str(w.get("label")), hp, str(w["source"]))
        return list(part.viol.values())
    gen = w.get("gen")
    if isinstance(gen, dict) and gen.get("family") in ("A", "B", "S"):  # regenerate the case: also re-checks the template-encode clauses
        run_gen(part, gen["family"], int(gen["flags"]), int(gen["pcode"]), gen.get("factor"), gen.get("state"))
        return list(part.viol.values())
    if isinstance(gen, dict) and gen.get("family") == "rep":
        _GEN_FAILURES.clear()
        representatives()
        for what, e in _GEN_FAILURES.items():
            gen_failure_violation(part, e, what, gen)
        return list(part.viol.values())
    p = w["hex"] if isinstance(w["hex"], (bytes, bytearray)) else bytes.fromhex(w["hex"])
    tops = [(int(a), str(b)) for a, b in w["tops"]] if w.get("tops") else None
    case = str(w.get("case") or "")
    if w.get("origin") == "generated":
        hint = "baseline" if case.startswith("A ") else case.split(" ")[1].split("/")[0] if " " in case else "replay"
    else:
        m = re.search(r"\(([A-Za-z]+)\)|inside ([A-Za-z]+)\)", case)
        hint = (m.group(1) or m.group(2)) if m else ("trailing" if "extended" in case else "replay")
    judge(part, p, w.get("origin", "mutated"), hint, w, tops)
    return list(part.viol.values())

"""C18 -- message log: filters mean what they say and the view equals the filtered log (DESIGN §4 C18).

Four bounded-exhaustive parts, all against the real ``compile_filter`` / ``*MessageLogEntry`` / ``FilteringMessageLogger``:

(a) boolean structure.  Every expression tree of depth <= 2 over {!, &&, ||} on the leaf set ``A_LEAVES`` (rendered fully
    parenthesised), plus every unparenthesised chain ``t1 op t2 op ... tn`` (optionally negated terms), x every entry of
    ``ENTRY_IDS_A`` (LLUDP: every field type in one block, the same frozen, repeated blocks with mixed types + empty block list +
    acks/extra, other name + message meta, subfield-serialized var, wire-decoded zerocoded message with str / JankStringyBytes
    fields, entry with region+session; two EQ entries, two HTTP entries) x short_circuit {True, False}.
      shape                 the compiled node tree has the generated shape (chains: the grammar's documented reading --
                            ``expression := term (op expression)?`` i.e. right-nested, && and || of equal precedence, ``!``
                            binds to the following term only)
      node-combine          root.match == combination of the root's children matched standalone on the same entry
      denotation            root.match == the generated expression evaluated on the leaves' standalone matches
      short-circuit-disagree  both short_circuit modes give the same boolean
      tree-raises           no exception (when no leaf of the tree raises standalone -- a raising leaf is reported once under
                            the leaf clauses below and the trees containing it are only held to three-valued consistency)
(b) leaf semantics.  operator {bare, ==, !=, ^=, $=, ~=, >, >=, <, <=, &} x literal kinds {int, hex, float, str, bytes, None,
    True, 3-tuple, 4-tuple, enum specifier, Meta specifier} x selector shapes {exact, block glob, var glob, all glob, root by
    type, 4-part subfield exact/glob, Meta 2-part / 3-part, wrong arity} x entries.  Reference (plain type table, below):
    ``any(ref_apply(op, field, literal) for selected fields)``; ref_apply is False where the operator is not defined for the
    operand types.
      leaf-inapplicable-raises   match() raised although the reference says "not applicable to this field's type => False"
      leaf-raises                match() raised where every selected field is comparable
      match-result-unusable      match() returned a MatchResult whose truth value cannot be taken (bool() raises)
      leaf-value-spurious        match is True although no selected field satisfies the comparison (the statement's "only if")
      leaf-value-missed          match is False although a selected field satisfies it ("filters mean what they say")
      leaf-inapplicable-true     match is True by a comparison that is not applicable to the (single) selected field's type
      compile                    a filter built from the grammar's own operator list does not compile
      subfield-undecodable-raises  4-part selector on a variable whose payload the subfield serializer cannot decode raised
      logger-filter-error        the same through FilteringMessageLogger: add_log_entry logged an exception / set_filter raised
      logger-leaf-value          add_log_entry's verdict / the view differs from the reference
(c) view invariant, explicit-state search (hmc.explore.bfs) on FilteringMessageLogger(maxlen in {1, 2, 3}; canon includes the
    bound of every entry container and the logger's scalar settings, so a state that only *looks* like an earlier one is expanded),
    plus an overflow family enumerated without deduplication on maxlen 2: prefix in {-, clear, log.clear, pause.resume, 3 logs} .
    set_filter(selective | nothing) . every kind sequence of maxlen+1 .. maxlen+2 logs . set_filter(all | selective):
    alphabet {log(LLUDP | EQ | HTTP), set_filter(all | selective | nothing | type-inapplicable), pause, resume, clear}.
    "Retained" (read off set_filter/add_log_entry): the entries in the raw ring buffer (last maxlen logged while not paused)
    plus the entries that aged out of the ring buffer while visible and have matched every filter set since.
      view-equals-filtered-log   list(logger) == [retained entries matching the current filter], arrival order
      view-duplicates            no entry twice in the view
      set_filter-raises / op-raises   no operation raises
(d) export/import and freeze/thaw of LLUDP entries for one message per template (row 0 of the C01 generator; thorough: every
    value row), fresh and wire-decoded, frozen and not; EQ and HTTP entries.
      thaw-preserves / export-preserves   the thawed / re-imported entry's message serializes to the same datagram and has the
                            same name, direction, flags, packet id, acks and extra (as sequences), dropped, synthetic; EQ event
                            dict equal; HTTP request/response equal.

Cross-entry state (added after two missed seeds): the entry lists contain the same NAME under different kinds (Foo as LLUDP / EQ /
HTTP cap, ParcelProperties likewise, in both first-seen orders), the leaf/selector sets contain root selectors that match through the
entry TYPE (LLUDP, EQ, HTTP, E*, LLUDP.Block.Var), every filter of (a)/(b) is evaluated over the whole entry list forwards and then
backwards (clause evaluation-order-dependence: identical per-entry verdicts), the three logged kinds of (c) share the name Foo and
its match-nothing filter is ``!LLUDP && !EQ && !HTTP``; LogHarness.fresh() puts module-level containers of message_logger /
message_filter back to their import-time contents so that worlds do not inherit state from earlier worlds of the same worker.
(d) additionally runs the generator's block-count variants (Variable blocks with 0 / 2 / 255 entries, mixed counts, trailing blocks
omitted; 255 only at thorough) and compares the block lists (names in order + multiplicities, empty lists included).

Delivery paths (added after a missed seed): part (c) delivers log events through every public entry -- logger.log_*() (maxlen 1-3),
logger.add_log_entry(entry) directly (maxlen 2; what the fan-out and the log import call), and WrappingMessageLogger([logger,
second logger]).log_*() with pause/resume of the second logger in the alphabet (maxlen 2, one level shallower); the same view oracle
holds for every logger: a paused logger retains nothing that arrives while it is paused, whoever hands it the entry.
The harness reads compiled filter nodes only through tolerant accessors (_node_literal / getattr); reference verdicts come from the
generated filter text.  Literals now include False, a UUID-valued string and a quoted string with escapes; the grammar has no
negative numbers.  The false-everywhere leaf of (a) is ``Foo.Bar.N != None`` (None literal under !, &&, ||).

Export/thaw exactness (added for a defect the loose comparison hid): the header attributes of a thawed / re-imported message are
compared type-exactly (_typed: acks tuple, extra bytes-like, flags int, packet_id incl. None, direction, dropped/synthetic bool, meta
dict incl. tuple-valued entries), against an expectation written from the generator's plain data; row 0 of every template is also run
with packet_id None (synthetic message logged before it got an id).  Differential oracle (part e): every leaf filter of the (b)
selector table with bare / == / != x all literals gives the same verdict on an entry before and after export+import, after freeze
(thaw), and after freeze+export+import -- clauses export-changes-verdict / thaw-changes-verdict, site = stage:kind:Meta.<key> or
field:<type of the selected field>; no hand-written expectation.

Deviations from DESIGN: 8 leaves instead of 6 in (a) (two type-inapplicable leaves: one raises in both modes, one only without
short-circuit); chains with negated terms are enumerated over the first 4 leaves only (size).  Acks/extra are compared as
sequences (a wire-decoded message's ``extra`` is a bytearray and comes back from import as a list of ints; the datagram is equal).
"""
from __future__ import annotations

import contextlib
import fnmatch
import itertools
import time
import uuid as _uuid
from typing import Any, Dict, List, Optional, Tuple

from hippolyzer.lib.base.datatypes import JankStringyBytes, Quaternion, TupleCoord, UUID, Vector3
from hippolyzer.lib.base.message.message import Block, Message
from hippolyzer.lib.base.message.udpdeserializer import UDPMessageDeserializer
from hippolyzer.lib.base.message.udpserializer import UDPMessageSerializer
from hippolyzer.lib.base.network.transport import Direction
from hippolyzer.lib.base.settings import Settings
import hippolyzer.lib.base.templates  # noqa: F401  (registers the subfield serializers)
from hippolyzer.lib.proxy import message_logger as ml
from hippolyzer.lib.proxy.caps import SerializedCapData
from hippolyzer.lib.proxy.http_flow import HippoHTTPFlow
from hippolyzer.lib.proxy.message_filter import (AndFilterNode, EnumFieldSpecifier, MessageFilterNode, MetaFieldSpecifier,
                                                 OrFilterNode, UnaryNotFilterNode, compile_filter)
from hippolyzer.lib.proxy.message_logger import (EQMessageLogEntry, FilteringMessageLogger, HTTPMessageLogEntry,
                                                 LLUDPMessageLogEntry, export_log_entries, import_log_entries)

from hmc import explore, msggen
from hmc.core import Part, Run, pmap

LEVEL = "model_checking"


# ================================================================================================
# determinism helpers
# ================================================================================================
@contextlib.contextmanager
def _det_ids(start: int):
    """mitmproxy's test flows call uuid.uuid4()/time.time(); pin both while a flow is built."""
    n = [start]

    def fake_uuid4():
        n[0] += 1
        return _uuid.UUID(int=(0xC18 << 64) + n[0])

    old_u, old_t = _uuid.uuid4, time.time
    _uuid.uuid4, time.time = fake_uuid4, (lambda: 1_600_000_000.0)
    try:
        yield
    finally:
        _uuid.uuid4, time.time = old_u, old_t


class _LogRecorder:
    """Stands in for message_logger.LOG while the logger path is exercised (records swallowed exceptions)."""

    def __init__(self):
        self.records: List[Tuple[str, str]] = []

    def exception(self, msg, *a, **kw):
        import sys
        et, ev, _ = sys.exc_info()
        self.records.append((et.__name__ if et else "?", str(ev)[:120]))

    def _noop(self, *a, **kw):
        pass

    warning = error = info = debug = critical = _noop


@contextlib.contextmanager
def _recording_log():
    rec = _LogRecorder()
    old = ml.LOG
    ml.LOG = rec
    try:
        yield rec
    finally:
        ml.LOG = old


# ================================================================================================
# entries: plain-data specs (the reference's view of an entry) + builders of the real entry objects
# ================================================================================================
class _Obj:
    def __init__(self, **kw):
        self.__dict__.update(kw)


class _StubObjects:
    def lookup_fullid(self, _fullid):
        return _Obj(LocalID=42)

    def lookup_localid(self, _local):
        return _Obj(FullID=UUID(int=11))


_STUB_SESSION = _Obj(agent_id=UUID(int=9), id=UUID(int=10), selected=_Obj(object_local=77))
_STUB_REGION = _Obj(name="Stubville", objects=_StubObjects())

TERSE_SUB = {"ID": 7, "State": 0, "FootCollisionPlane": None, "Position": Vector3(10.0, 20.0, 30.0),
             "Velocity": Vector3(0.0, 0.0, 0.0), "Acceleration": Vector3(0.0, 0.0, 0.0), "Rotation": Quaternion(0.0, 0.0, 0.0, 1.0),
             "AngularVelocity": Vector3(0.0, 0.0, 0.0)}


def _foo_vars():
    # insertion order == iteration order in LLUDPMessageLogEntry.matches
    return {"I": 5, "Z": 0, "E": 2, "S": "hello", "B": b"he\x00llo", "U": UUID(int=5), "V": Vector3(1.0, 2.0, 3.0), "F": 1.5,
            "J": JankStringyBytes(b"hello\x00"), "N": None, "Q": Quaternion(0.0, 0.0, 0.0, 1.0), "T": (1, 2, 3)}


class Spec:
    """Reference description of one entry: kind, name, fields, decoded subfields, Meta values."""

    def __init__(self, eid, kind, name, blocks=(), subfields=None, meta=None, undecodable=()):
        self.id, self.kind, self.name = eid, kind, name
        self.blocks: List[Tuple[str, List[Dict[str, Any]]]] = list(blocks)
        self.subfields: Dict[Tuple[str, int, str], Dict[str, Any]] = subfields or {}
        self.undecodable = set(undecodable)  # (block, idx, var) with a serializer that cannot decode the payload
        base = {"Type": kind, "Method": "", "AgentLocal": None, "SelectedLocal": None, "ObjectUpdateIDs": None, "AgentID": None,
                "RegionName": "", "Acks": None, "Extra": None, "Status": None, "Url": None, "ReqHeaders": None}
        base.update(meta or {})
        self.meta = base

    def get_meta(self, key: str):
        if self.kind == "HTTP":
            for k in ("Url", "Status", "ReqHeaders"):
                if key.lower() == k.lower():  # the HTTP-specific keys are documented case-insensitive
                    return self.meta[k]
        return self.meta.get(key)


def _http_flow(serial: int, cap: Optional[str], method="GET", status=200, cookie=None, path="/path", content=b"message"):
    from mitmproxy.test import tflow, tutils
    with _det_ids(serial * 16):
        req = tutils.treq(method=method.encode(), path=path.encode())
        resp = tutils.tresp(status_code=status, content=content)
        ff = tflow.tflow(req=req, resp=resp)
        if cookie is not None:
            ff.request.headers["Cookie"] = cookie
        if cap:
            ff.metadata["cap_data_ser"] = SerializedCapData(cap_name=cap)
        return HippoHTTPFlow.from_state(ff.get_state(), None)


_SER = UDPMessageSerializer()


def _deferred_deserializer():
    return UDPMessageDeserializer(settings=Settings())


_KEEP: List[Any] = []  # deserializers are held by weakref from deferred messages


def build_entries() -> Dict[str, Tuple[Any, Spec]]:
    out: Dict[str, Tuple[Any, Spec]] = {}

    def add(entry, spec):
        out[spec.id] = (entry, spec)

    # 1/2: every field type in one block; fresh and frozen
    for eid, direction, frozen in (("udp_foo", Direction.OUT, False), ("udp_foo_frozen", Direction.IN, True)):
        m = Message("Foo", Block("Bar", **_foo_vars()), packet_id=1, flags=0x40, direction=direction)
        e = LLUDPMessageLogEntry(m, None, None)
        if frozen:
            e.freeze()
        add(e, Spec(eid, "LLUDP", "Foo", [("Bar", [_foo_vars()])], meta={"Method": direction.name, "Acks": (), "Extra": b""}))
    # 3: repeated block, mixed types under one var name across blocks, empty block list, acks + extra
    m = Message("Foo", Block("Bar", I=1), Block("Bar", I=5), Block("Baz", I="five", S="hello"), packet_id=2, flags=0x10, acks=(1, 2, 3))
    m.create_block_list("Empty")
    m.extra = b"\x01\x02"
    add(LLUDPMessageLogEntry(m, None, None),
        Spec("udp_multi", "LLUDP", "Foo", [("Bar", [{"I": 1}, {"I": 5}]), ("Baz", [{"I": "five", "S": "hello"}]), ("Empty", [])],
             meta={"Method": "OUT", "Acks": (1, 2, 3), "Extra": b"\x01\x02"}))
    # 4: other name, message-level meta
    m = Message("Bar", Block("Bar", I=5, S="he", X="he's \"q\" \\"))
    m.meta.update({"AgentLocal": 2, "ObjectUpdateIDs": (1, 2, 3), "SelectedLocal": 2})
    add(LLUDPMessageLogEntry(m, None, None),
        Spec("udp_bar", "LLUDP", "Bar", [("Bar", [{"I": 5, "S": "he", "X": "he's \"q\" \\"}])],
             meta={"Method": "OUT", "Acks": (), "Extra": b"", "AgentLocal": 2, "ObjectUpdateIDs": (1, 2, 3), "SelectedLocal": 2}))
    # 5: subfield-serialized var
    m = Message("ImprovedTerseObjectUpdate", Block("RegionData", RegionHandle=5, TimeDilation=65535),
                Block("ObjectData", Data_=dict(TERSE_SUB), TextureEntry=b""), packet_id=3)
    od = m["ObjectData"][0]
    add(LLUDPMessageLogEntry(m, None, None),
        Spec("udp_terse", "LLUDP", "ImprovedTerseObjectUpdate",
             [("RegionData", [{"RegionHandle": 5, "TimeDilation": 65535}]), ("ObjectData", [dict(od.vars)])],
             subfields={("ObjectData", 0, "Data"): dict(TERSE_SUB)}, meta={"Method": "OUT", "Acks": (), "Extra": b""}))
    # 6: wire-decoded (deferred parse): "probably text" variable arrives as str, an undecided one as JankStringyBytes
    m = Message("GenericMessage", Block("AgentData", AgentID=UUID(int=9), SessionID=UUID(int=10), TransactionID=UUID(int=0)),
                Block("MethodData", Method="hello", Invoice=UUID(int=0)), Block("ParamList", Parameter=b"hello\x00"),
                Block("ParamList", Parameter=b"\x00"), packet_id=4, flags=0xC0)  # reliable + zerocoded
    de = _deferred_deserializer()
    _KEEP.append(de)
    mw = de.deserialize(bytes(_SER.serialize(m)))
    mw.direction = Direction.IN
    add(LLUDPMessageLogEntry(mw, None, None),
        Spec("udp_generic_wire", "LLUDP", "GenericMessage",
             [("AgentData", [{"AgentID": UUID(int=9), "SessionID": UUID(int=10), "TransactionID": UUID(int=0)}]),
              ("MethodData", [{"Method": "hello", "Invoice": UUID(int=0)}]),
              ("ParamList", [{"Parameter": JankStringyBytes(b"hello\x00")}, {"Parameter": JankStringyBytes(b"\x00")}])],
             meta={"Method": "IN", "Acks": (), "Extra": b""}))
    # 7: entry with (stub) region and session -> AgentID / RegionName / AgentLocal / SelectedLocal populated
    m = Message("Foo", Block("Bar", I=7, S="hello"), packet_id=5)
    add(LLUDPMessageLogEntry(m, _STUB_REGION, _STUB_SESSION),
        Spec("udp_stub", "LLUDP", "Foo", [("Bar", [{"I": 7, "S": "hello"}])],
             meta={"Method": "OUT", "Acks": (), "Extra": b"", "AgentID": UUID(int=9), "RegionName": "Stubville", "AgentLocal": 42,
                   "SelectedLocal": 77}))
    # 8/9: event-queue entries (no fields; second one collides with the LLUDP name)
    add(EQMessageLogEntry({"message": "EstablishAgentCommunication", "body": {"agent-id": UUID(int=3), "sim-ip-and-port": "1.2.3.4:5"}},
                          None, None), Spec("eq_plain", "EQ", "EstablishAgentCommunication"))
    add(EQMessageLogEntry({"message": "Foo", "body": {"Bar": 1}}, None, None), Spec("eq_foo", "EQ", "Foo"))
    # 10/11: HTTP entries (cap-named and URL-named)
    add(HTTPMessageLogEntry(_http_flow(1, "FakeCap", cookie='foo="bar"')),
        Spec("http_cap", "HTTP", "FakeCap", meta={"Method": "GET", "Status": 200, "Url": "http://address:22/path",
                                                 "ReqHeaders": {"cookie": 'foo="bar"', "header": "qvalue"}}))
    add(HTTPMessageLogEntry(_http_flow(2, None, method="POST", status=404)),
        Spec("http_url", "HTTP", "http://address:22/path", meta={"Method": "POST", "Status": 404, "Url": "http://address:22/path",
                                                                 "ReqHeaders": {"header": "qvalue"}}))
    # 12-15: the same NAME under different entry kinds (ParcelProperties really arrives both as LLUDP and as an EQ event; a cap
    # may be named like a message) -- anything keyed on the name alone confuses them
    add(HTTPMessageLogEntry(_http_flow(3, "Foo", cookie=None)),
        Spec("http_foo", "HTTP", "Foo", meta={"Method": "GET", "Status": 200, "Url": "http://address:22/path",
                                             "ReqHeaders": {"header": "qvalue"}}))
    m = Message("ParcelProperties", Block("ParcelData", LocalID=5, Name="parcel"), packet_id=7)
    add(LLUDPMessageLogEntry(m, None, None),
        Spec("udp_parcel", "LLUDP", "ParcelProperties", [("ParcelData", [{"LocalID": 5, "Name": "parcel"}])],
             meta={"Method": "OUT", "Acks": (), "Extra": b""}))
    add(EQMessageLogEntry({"message": "ParcelProperties", "body": {"ParcelData": [{"LocalID": 5, "Name": "parcel"}]}}, None, None),
        Spec("eq_parcel", "EQ", "ParcelProperties"))
    add(HTTPMessageLogEntry(_http_flow(4, "ParcelProperties", method="POST")),
        Spec("http_parcel", "HTTP", "ParcelProperties", meta={"Method": "POST", "Status": 200, "Url": "http://address:22/path",
                                                              "ReqHeaders": {"header": "qvalue"}}))
    # 16 (part b only): a variable whose payload its subfield serializer cannot decode
    m = Message("ImprovedTerseObjectUpdate", Block("RegionData", RegionHandle=5, TimeDilation=65535),
                Block("ObjectData", Data=b"\x01\x02", TextureEntry=b""), packet_id=6)
    add(LLUDPMessageLogEntry(m, None, None),
        Spec("udp_terse_bad", "LLUDP", "ImprovedTerseObjectUpdate",
             [("RegionData", [{"RegionHandle": 5, "TimeDilation": 65535}]), ("ObjectData", [{"Data": b"\x01\x02", "TextureEntry": b""}])],
             undecodable=[("ObjectData", 0, "Data")], meta={"Method": "OUT", "Acks": (), "Extra": b""}))
    return out


ENTRY_IDS_A = ["udp_foo", "udp_foo_frozen", "udp_multi", "udp_bar", "udp_terse", "udp_generic_wire", "udp_stub", "eq_plain", "eq_foo",
               "http_cap", "http_url", "http_foo", "eq_parcel", "udp_parcel", "http_parcel"]
ENTRY_IDS_B = ENTRY_IDS_A + ["udp_terse_bad"]

_ENTRIES: Dict[str, Tuple[Any, Spec]] = {}


def entries() -> Dict[str, Tuple[Any, Spec]]:
    if not _ENTRIES:
        _ENTRIES.update(build_entries())
    return _ENTRIES


# ================================================================================================
# reference semantics (plain Python; independent of message_logger / message_filter)
# ================================================================================================
def norm(v):
    """Field values that are not plain data compare by their string form (UUIDs are written as strings in filters)."""
    if isinstance(v, _uuid.UUID):
        return str(v)
    if isinstance(v, dict):  # header maps etc. have no comparison semantics of their own; only truthiness is asked of them
        return "map" if v else ""
    return v


def vkind(v) -> str:
    if v is None:
        return "none"
    if isinstance(v, bool):
        return "bool"
    if isinstance(v, int):
        return "int"
    if isinstance(v, float):
        return "float"
    if isinstance(v, JankStringyBytes):
        return "jsb"
    if isinstance(v, (bytes, bytearray)):
        return "bytes"
    if isinstance(v, str):
        return "str"
    if isinstance(v, TupleCoord):
        return "coord"
    if isinstance(v, (tuple, list)):
        return "tuple"
    return type(v).__name__


_NUM = ("bool", "int", "float")
_ORD = {"<": lambda a, b: a < b, "<=": lambda a, b: a <= b, ">": lambda a, b: a > b, ">=": lambda a, b: a >= b}
DEF, UNDEF, FREE = "def", "undef", "free"


def _jsb_text(v) -> str:
    return bytes(v).rstrip(b"\x00").decode("utf8", "replace")


def _ref_eq(v, lit) -> bool:
    kv, kl = vkind(v), vkind(lit)
    if kv == "coord":
        return kl in ("tuple", "coord") and tuple(float(c) for c in v) == tuple(lit)
    if kv == "jsb":
        if kl == "str":
            return _jsb_text(v) == lit
        return kl in ("bytes", "jsb") and bytes(v) == bytes(lit)
    if kv in _NUM and kl in _NUM:
        return v == lit
    if kv == kl:
        return v == lit
    return False


def ref_apply(op: Optional[str], v, lit) -> Tuple[bool, bool, str]:
    """(lo, hi, status): the real verdict b for this field must satisfy lo <= b <= hi.  status UNDEF = the operator is not
    defined for the operand types (verdict False); FREE = the statement does not pin the verdict (only: no exception)."""
    kv, kl = vkind(v), vkind(lit)

    def d(b):
        return bool(b), bool(b), DEF

    if op is None:
        if kv == "jsb":
            return d(bytes(v) not in (b"", b"\x00"))
        return d(bool(v))
    if op == "==":
        return d(_ref_eq(v, lit))
    if op == "!=":
        return d(not _ref_eq(v, lit))
    if op in _ORD:
        f = _ORD[op]
        if kv in _NUM and kl in _NUM:
            return d(f(v, lit))
        if kv == "str" and kl == "str":
            return d(f(v, lit))
        if kv in ("bytes", "jsb") and kl == "bytes":
            return d(f(bytes(v), lit))
        if kv == "jsb" and kl == "str":
            return False, True, FREE
        if kv == "tuple" and kl == "tuple":
            return d(f(tuple(v), tuple(lit)))
        if kv == "coord" and kl in ("tuple", "coord"):
            comps = tuple(float(c) for c in v)
            if len(comps) != len(tuple(lit)):
                return False, True, FREE
            return d(all(f(a, b) for a, b in zip(comps, tuple(lit))))  # "on all axes" (tests/proxy/test_message_filter.py)
        return False, False, UNDEF
    if op in ("^=", "$="):
        if kv == "none":
            return d(False)
        if (kv == "str" and kl == "str") or (kv == "bytes" and kl == "bytes"):
            return d(v.startswith(lit) if op == "^=" else v.endswith(lit))
        if kv == "jsb" and kl == "bytes":
            if op == "^=":
                return d(bytes(v).startswith(lit))
            return False, True, FREE  # trailing NUL of wire strings: not pinned
        if kv == "jsb" and kl == "str":
            return False, True, FREE
        return False, False, UNDEF
    if op == "~=":
        if kv == "none":
            return d(False)
        if kv == "str" and kl == "str":
            return d(lit in v)
        if kv == "bytes" and kl == "bytes":
            return d(lit in v)
        if kv == "jsb" and kl == "str":
            return d(lit in _jsb_text(v))
        if kv == "jsb" and kl == "bytes":
            return d(lit in bytes(v))
        if kv in ("bytes", "jsb") and kl in ("int", "bool"):
            return False, True, FREE
        if kv == "tuple":
            return d(any(_ref_eq(norm(x), lit) for x in v))
        if kv == "coord":
            return d(any(_ref_eq(float(c), lit) for c in v))
        return False, False, UNDEF
    if op == "&":
        if kv in ("bool", "int") and kl in ("bool", "int"):
            return d((int(v) & int(lit)) != 0)
        return False, False, UNDEF
    raise AssertionError(op)


class Lit:
    def __init__(self, kind: str, text: str, value=None, meta_key=None):
        self.kind, self.text, self.value, self.meta_key = kind, text, value, meta_key

    def resolve(self, spec: Spec):
        if self.meta_key is not None:
            return norm(spec.get_meta(self.meta_key))
        return self.value


LITS: List[Lit] = [
    Lit("int", "5", 5), Lit("int", "0", 0), Lit("hex", "0x7", 7), Lit("float", "1.5", 1.5), Lit("str", '"he"', "he"),
    Lit("str", '"hello"', "hello"), Lit("bytes", 'b"he"', b"he"), Lit("none", "None", None), Lit("bool", "True", True),
    Lit("bool", "False", False), Lit("str", '"00000000-0000-0000-0000-000000000005"', "00000000-0000-0000-0000-000000000005"),
    Lit("str", "'he\\'s \"q\" \\\\'", "he's \"q\" \\"),
    Lit("tuple3", "(1, 2, 3)", (1, 2, 3)), Lit("tuple3", "(0, 0, 0)", (0, 0, 0)), Lit("tuple4", "(0, 0, 0, 1)", (0, 0, 0, 1)),
    Lit("enum", "SculptType.TORUS", 2), Lit("meta", "Meta.AgentLocal", meta_key="AgentLocal"),
    Lit("meta", "Meta.SelectedLocal", meta_key="SelectedLocal"),
]
LIT_BY_TEXT = {lit.text: lit for lit in LITS}
OPS: List[Optional[str]] = [None, "==", "!=", "^=", "$=", "~=", ">", ">=", "<", "<=", "&"]

SELECTORS: List[Tuple[Tuple[str, ...], str]] = (
    [(("Foo", "Bar", v), "exact") for v in _foo_vars()] + [
        (("Foo", "*", "I"), "blockglob"), (("Foo", "Bar", "*"), "varglob"), (("*", "*", "*"), "allglob"), (("F*", "B*", "S"), "nameglob"),
        (("LLUDP", "Bar", "I"), "root-by-type"), (("Bar", "Bar", "X"), "exact"), (("GenericMessage", "ParamList", "Parameter"), "exact"),
        (("GenericMessage", "MethodData", "Method"), "exact"), (("GenericMessage", "AgentData", "AgentID"), "exact"), (("Foo", "Empty", "*"), "empty-block"), (("Foo", "Bar", "Nope"), "missing-var"),
        (("ImprovedTerseObjectUpdate", "ObjectData", "Data", "ID"), "sub-exact"),
        (("ImprovedTerseObjectUpdate", "ObjectData", "Data", "Position"), "sub-exact"),
        (("ImprovedTerseObjectUpdate", "ObjectData", "Data", "FootCollisionPlane"), "sub-exact"),
        (("ImprovedTerseObjectUpdate", "ObjectData", "Data", "Rotation"), "sub-exact"),
        (("ImprovedTerseObjectUpdate", "ObjectData", "Data", "Nope"), "sub-missing"),
        (("ImprovedTerseObjectUpdate", "ObjectData", "Data", "*"), "sub-glob"), (("*", "*", "*", "*"), "sub-allglob"),
        (("ImprovedTerseObjectUpdate", "RegionData", "TimeDilation", "x"), "sub-nondict"), (("Foo", "Bar", "I", "x"), "sub-noserializer"),
        (("Foo",), "root-only"), (("F*",), "root-only"), (("HTTP",), "root-only"), (("LLUDP",), "root-only"), (("EQ",), "root-only"),
        (("E*",), "root-only"), (("ParcelProperties",), "root-only"), (("LLUDP", "ParcelData", "LocalID"), "root-by-type"),
        (("EQ", "ParcelData", "LocalID"), "root-by-type"), (("ParcelProperties", "ParcelData", "LocalID"), "exact"),
        (("Foo", "Bar"), "arity2"),
        (("Foo", "Bar", "I", "x", "y"), "arity5"),
        (("Meta", "Type"), "meta2"), (("Meta", "Method"), "meta2"), (("Meta", "AgentLocal"), "meta2"), (("Meta", "SelectedLocal"), "meta2"),
        (("Meta", "ObjectUpdateIDs"), "meta2"), (("Meta", "Acks"), "meta2"), (("Meta", "Extra"), "meta2"), (("Meta", "AgentID"), "meta2"),
        (("Meta", "RegionName"), "meta2"), (("Meta", "Status"), "meta2"), (("Meta", "Url"), "meta2"), (("Meta", "Nope"), "meta2"),
        (("Meta", "ReqHeaders", "cookie"), "meta3"), (("Meta", "ReqHeaders", "nope"), "meta3"), (("Meta", "Type", "x"), "meta3-nonmap"),
        (("Meta", "Nope", "x"), "meta3-missing"), (("Meta", "Type", "x", "y"), "meta4"),
    ])
SEL_SHAPE = {sel: shape for sel, shape in SELECTORS}


def leaf_text(selector, op, lit_text) -> str:
    s = ".".join(selector)
    return s if op is None else f"{s} {op} {lit_text}"


def ref_leaf(spec: Spec, selector: Tuple[str, ...], op: Optional[str], lit: Optional[Lit]):
    """-> (lo, hi, first_nondef (status, field kind) or None, selected field kinds, undecodable_touched)."""
    has_cmp = op is not None
    if len(selector) == 1:
        if has_cmp:  # a comparison on a bare message name selects no field
            return False, False, None, [], False
        b = fnmatch.fnmatchcase(spec.name, selector[0]) or fnmatch.fnmatchcase(spec.kind, selector[0])
        return b, b, None, [], False
    values: List[Any] = []
    undec = False
    if selector[0] == "Meta":
        if len(selector) == 2:
            values.append(norm(spec.get_meta(selector[1])))
        elif len(selector) == 3:
            m = spec.get_meta(selector[1])
            if isinstance(m, dict) and m:
                values.append(norm(m.get(selector[2])))
        # deeper Meta selectors select nothing
        if not values:
            return False, False, None, [], False
    else:
        if spec.kind != "LLUDP" or len(selector) not in (3, 4):
            return False, False, None, [], False
        if not (fnmatch.fnmatchcase(spec.name, selector[0]) or fnmatch.fnmatchcase(spec.kind, selector[0])):
            return False, False, None, [], False
        for bname, rows in spec.blocks:
            if not fnmatch.fnmatchcase(bname, selector[1]):
                continue
            for i, row in enumerate(rows):
                for var, val in row.items():
                    if not fnmatch.fnmatchcase(var, selector[2]):
                        continue
                    if len(selector) == 3:
                        values.append(norm(val))
                    else:
                        if (bname, i, var) in spec.undecodable:
                            undec = True
                        sub = spec.subfields.get((bname, i, var))
                        if sub:
                            values.extend(norm(sv) for sk, sv in sub.items() if fnmatch.fnmatchcase(str(sk), selector[3]))
        if not has_cmp:  # bare field selector: presence of the field (README: "filtering on the presence of specific blocks")
            b = bool(values)
            return b, b, None, [vkind(v) for v in values], undec
    lo = hi = False
    first = None
    litv = lit.resolve(spec) if lit is not None else None
    for v in values:
        a, b, st = ref_apply(op, v, litv)
        lo, hi = lo or a, hi or b
        if st != DEF and first is None:
            first = (st, vkind(v))
    return lo, hi, first, [vkind(v) for v in values], undec


# ================================================================================================
# real evaluation
# ================================================================================================
def real_eval(node, entry, sc: bool):
    try:
        r = node.match(entry, sc)
    except Exception as e:  # noqa
        return ("exc", type(e).__name__, str(e)[:100])
    try:
        b = bool(r)
    except Exception as e:  # noqa
        return ("badbool", type(e).__name__, repr(getattr(r, "result", r))[:40])
    if b is not True and b is not False:
        return ("badbool", "NotBool", repr(b)[:40])
    return ("ok", b)


def check_leaf(part, node, text: str, selector, op, lit: Optional[Lit], eid: str, witness):
    """Part (b) oracle for one (leaf filter, entry): both short-circuit modes."""
    entry, spec = entries()[eid]
    lo, hi, first, kinds, undec = ref_leaf(spec, selector, op, lit)
    nsel = len(kinds)
    shape = SEL_SHAPE.get(tuple(selector), "other")
    opname = op or "bare"
    where = kinds[0] if nsel == 1 else shape  # field type when one field is selected, selector shape otherwise
    if selector[0] == "Meta" and len(selector) > 1:
        where = f"Meta.{selector[1]}"
    outs = []
    for sc in (True, False):
        out = real_eval(node, entry, sc)
        outs.append(out)
        part.count("evaluations")
        part.count("b_leaf_evals")
        part.outcome(("b", opname, lit.kind if lit else None, shape, spec.kind, out[0], out[1]))
        if out[0] == "exc":
            if undec:
                part.violation("subfield-undecodable-raises", f"LLUDPMessageLogEntry.matches:deserialize_var:{out[1]}", witness,
                               f"{text!r} on {eid} (short_circuit={sc}) raised {out[1]}: {out[2]}; the variable's payload cannot be decoded "
                               f"by its subfield serializer, so no subfield is selected and the comparison is false")
            elif first is not None:
                part.violation("leaf-inapplicable-raises", f"_val_matches:{opname}:{first[1]}", witness,
                               f"{text!r} on {eid} (short_circuit={sc}) raised {out[1]}: {out[2]}; expected {_rng(lo, hi)} "
                               f"({opname} {lit.text if lit else ''} is not applicable to a {first[1]} field and is simply false for it)")
            else:
                part.violation("leaf-raises", f"_val_matches:{opname}:{where}:{out[1]}", witness,
                               f"{text!r} on {eid} (short_circuit={sc}) raised {out[1]}: {out[2]}; expected {_rng(lo, hi)}")
        elif out[0] == "badbool":
            part.violation("match-result-unusable", f"_val_matches:{opname}:{shape}", witness,
                           f"{text!r} on {eid} (short_circuit={sc}): MatchResult.result is {out[2]}, bool() raises {out[1]}; expected {_rng(lo, hi)}")
        else:
            b = out[1]
            if not (lo <= b <= hi):
                if b and first is not None and first[0] == UNDEF and nsel == 1:
                    part.violation("leaf-inapplicable-true", f"_val_matches:{opname}:{where}", witness,
                                   f"{text!r} on {eid} (short_circuit={sc}) gave True; {opname} {lit.text if lit else ''} is not applicable to a "
                                   f"{first[1]} field and is simply false for it")
                else:
                    part.violation("leaf-value-spurious" if b else "leaf-value-missed", f"_val_matches:{opname}:{where}", witness,
                                   f"{text!r} on {eid} (short_circuit={sc}) gave {b}, reference {_rng(lo, hi)} over {nsel} selected field(s) {kinds[:6]}")
    if outs[0][0] == "ok" and outs[1][0] == "ok" and outs[0][1] != outs[1][1]:
        part.violation("short-circuit-disagree", f"{spec.kind}.matches:{shape}", witness, f"{text!r} on {eid}: short-circuit {outs[0][1]}, full {outs[1][1]}")
    if nsel > 1 or first is not None:
        part.mark_nontrivial(("b", text, eid))
    return lo, hi, first, outs, undec


def _rng(lo, hi) -> str:
    return str(lo) if lo == hi else "no exception (verdict not pinned)"


# ---- part (b) worker ------------------------------------------------------------------------------
def _b_filters(selector) -> List[Tuple[Optional[str], Optional[Lit]]]:
    out: List[Tuple[Optional[str], Optional[Lit]]] = [(None, None)]
    for op in OPS[1:]:
        for lit in LITS:
            out.append((op, lit))
    return out


def _b_check_filter(part: Part, selector, op, lit, eids):
    text = leaf_text(selector, op, lit.text if lit else None)
    wbase = {"part": "b", "selector": list(selector), "op": op, "lit": lit.text if lit else None}
    try:
        node = compile_filter(text)
    except Exception as e:  # noqa
        part.violation("compile", f"compile_filter:{op or 'bare'}", wbase, f"{text!r} does not compile: {type(e).__name__}: {e}"[:300])
        return
    if not isinstance(node, MessageFilterNode) or tuple(getattr(node, "selector", selector)) != tuple(selector) \
            or getattr(node, "operator", op) != op:
        part.violation("shape", "MessageFilterVisitor:leaf", wbase, f"{text!r} compiled to {type(node).__name__} "
                                                                   f"{getattr(node, 'selector', None)} {getattr(node, 'operator', None)}")
        return
    part.count("b_filters")
    refs = {}
    for eid in eids:
        refs[eid] = check_leaf(part, node, text, selector, op, lit, eid, {**wbase, "entry": eid})
    # opposite order, freshly compiled filter: a verdict is a function of (filter, entry) alone
    node2 = compile_filter(text)
    for eid in reversed(eids):
        entry = entries()[eid][0]
        again = [real_eval(node2, entry, True), real_eval(node2, entry, False)]
        part.count("evaluations", 2)
        if again != list(refs[eid][3]):
            part.violation("evaluation-order-dependence", f"{entries()[eid][1].kind}.matches:{SEL_SHAPE.get(tuple(selector), 'other')}",
                           {**wbase, "entry": eid}, f"{text!r} on {eid}: {refs[eid][3]} in list order, {again} in reverse order")
    # the same through the logger: add_log_entry must give the same verdict and log no exception; set_filter must not raise
    opname = op or "bare"
    lg = FilteringMessageLogger(maxlen=len(eids) + 1)
    with _recording_log() as rec:
        try:
            lg.set_filter(text)
        except Exception as e:  # noqa
            part.violation("logger-filter-error", f"FilteringMessageLogger.set_filter:{opname}:empty-log", wbase, f"{text!r}: {e!r}"[:300])
            return
        any_undec = False
        for eid in eids:
            entry, spec = entries()[eid]
            lo, hi, first, outs, undec = refs[eid]
            any_undec = any_undec or undec
            tag = "subfield-undecodable" if undec else opname
            w = {**wbase, "entry": eid, "via": "logger"}
            del rec.records[:]
            try:
                got = lg.add_log_entry(entry)
            except Exception as e:  # noqa
                part.violation("logger-filter-error", f"FilteringMessageLogger.add_log_entry:{tag}:raised", w, f"{text!r}, {eid}: {e!r}"[:300])
                continue
            part.count("evaluations")
            part.count("b_logger_evals")
            if rec.records:
                part.violation("logger-filter-error", f"FilteringMessageLogger.add_log_entry:{tag}", w,
                               f"filter {text!r}: add_log_entry({eid}) logged 'Failed to filter queued message' ({rec.records[0][0]}: "
                               f"{rec.records[0][1]}); reference verdict {_rng(lo, hi)}")
            visible = [x for x in lg if x is entry]
            if bool(got) != bool(visible) or len(visible) > 1:
                part.violation("logger-leaf-value", "FilteringMessageLogger.add_log_entry:return-vs-view", w,
                               f"{text!r}, {eid}: returned {got!r} but entry visible {len(visible)} time(s)")
            elif not (lo <= bool(visible) <= hi):
                if rec.records:
                    part.count("b_logger_wrong_view_after_swallowed_error")  # already reported as logger-filter-error
                elif not (outs[0][0] == "ok" and outs[0][1] == bool(visible)):  # else already reported by the direct evaluation
                    part.violation("logger-leaf-value", f"FilteringMessageLogger.add_log_entry:{tag}", w,
                                   f"{text!r}, {eid}: visible={bool(visible)}, reference {_rng(lo, hi)}")
        # re-filter with every entry in the ring buffer
        w = {**wbase, "via": "logger"}
        part.count("evaluations")
        try:
            lg.set_filter(text)
        except Exception as e:  # noqa
            bad = [eid for eid in eids if any(o[0] != "ok" for o in refs[eid][3])]
            only_undec = bad and all(refs[eid][4] for eid in bad)
            part.violation("logger-filter-error", f"FilteringMessageLogger.set_filter:{'subfield-undecodable' if only_undec else opname}", w,
                           f"set_filter({text!r}) with {len(eids)} entries in the log raised {e!r} (entries on which the filter raises standalone: "
                           f"{bad}); the view still shows the previous filter's result"[:400])
            return
        for eid in eids:
            entry, spec = entries()[eid]
            lo, hi, first, outs, undec = refs[eid]
            vis2 = [x for x in lg if x is entry]
            if len(vis2) > 1 or (not (lo <= bool(vis2) <= hi) and not (outs[0][0] == "ok" and outs[0][1] == bool(vis2))):
                part.violation("logger-leaf-value", f"FilteringMessageLogger.set_filter:{opname}", {**w, "entry": eid},
                               f"{text!r}, {eid}: visible {len(vis2)} time(s) after set_filter, reference {_rng(lo, hi)}")


def _b_work(item):
    selector, op = item
    part = Part()
    entries()
    for o, lit in _b_filters(selector):
        if o != op:
            continue
        _b_check_filter(part, tuple(selector), o, lit, ENTRY_IDS_B)
    if op == "==":
        part.sample({"part": "b", "filter": leaf_text(selector, "==", LITS[0].text), "entries": len(ENTRY_IDS_B)}, limit=1)
    return part.dump()


# ================================================================================================
# part (a): boolean structure
# ================================================================================================
# (text, selector, op, literal text).  Truth/shape combinations over ENTRY_IDS_A:
A_LEAVES: List[Tuple[str, Tuple[str, ...], Optional[str], Optional[str]]] = [
    ("Foo.Bar.I == 5", ("Foo", "Bar", "I"), "==", "5"),       # true *with* matched fields (udp_foo, udp_foo_frozen, udp_multi)
    ("F*", ("F*",), None, None),                             # name glob, true without fields (LLUDP Foo, EQ Foo, HTTP Foo/FakeCap)
    ("LLUDP", ("LLUDP",), None, None),                       # root by entry type: differs between entries of the same name
    ("Meta.AgentLocal", ("Meta", "AgentLocal"), None, None),  # Meta truthiness (udp_bar, udp_stub)
    ("Foo.Bar.* > 4", ("Foo", "Bar", "*"), ">", "4"),         # type-inapplicable to later fields: true by the first field
    ("Foo.Bar.N != None", ("Foo", "Bar", "N"), "!=", "None"),  # false everywhere (N is None where it exists); None literal
    ("HTTP", ("HTTP",), None, None),                         # root by entry type
    ("Foo.Bar.S < 6", ("Foo", "Bar", "S"), "<", "6"),         # type-inapplicable to the only selected field
]
A_LITS = {"5": Lit("int", "5", 5), "0": Lit("int", "0", 0), "4": Lit("int", "4", 4), "6": Lit("int", "6", 6),
          "None": Lit("none", "None", None)}

Tree = tuple  # ("L", i) | ("!", t) | ("&&", l, r) | ("||", l, r)


def render(t: Tree) -> str:
    if t[0] == "L":
        return A_LEAVES[t[1]][0]
    if t[0] == "!":
        return f"!({render(t[1])})"
    return f"({render(t[1])}) {t[0]} ({render(t[2])})"


def trees_depth_le(nleaves: int, depth: int) -> List[Tree]:
    cur: List[Tree] = [("L", i) for i in range(nleaves)]
    for _ in range(depth):
        nxt = list(cur)
        seen = set(cur)
        for t in cur:
            c = ("!", t)
            if c not in seen:
                nxt.append(c)
                seen.add(c)
        for op in ("&&", "||"):
            for l in cur:
                for r in cur:
                    c = (op, l, r)
                    if c not in seen:
                        nxt.append(c)
                        seen.add(c)
        cur = nxt
    return cur


def tree_depth(t: Tree) -> int:
    if t[0] == "L":
        return 0
    return 1 + max(tree_depth(c) for c in t[1:])


def leaf_sig(i: int):
    _, sel, op, lit = A_LEAVES[i]
    return ("L", tuple(sel), op, None if lit is None else repr(A_LITS[lit].value))


def expected_shape(t: Tree):
    if t[0] == "L":
        return leaf_sig(t[1])
    return (t[0],) + tuple(expected_shape(c) for c in t[1:])


def _node_literal(node):
    """Right-hand side of a compiled comparison as plain data, whether the node keeps it boxed or not (tolerant accessor: the
    harness depends on the filter TEXT it generated, not on how the compiled tree stores its literals)."""
    v = getattr(node, "value", None)
    if isinstance(v, (MetaFieldSpecifier, EnumFieldSpecifier)):
        return repr(tuple(v))
    if v is not None and not isinstance(v, (bool, int, float, str, bytes, tuple)) and hasattr(v, "value"):
        v = v.value
    return repr(v)


def compiled_shape(node):
    if isinstance(node, MessageFilterNode):
        op = getattr(node, "operator", None)
        return ("L", tuple(getattr(node, "selector", ())), op, None if op is None else _node_literal(node))
    if isinstance(node, UnaryNotFilterNode):
        return ("!", compiled_shape(node.node))
    if isinstance(node, AndFilterNode):
        return ("&&", compiled_shape(node.left_node), compiled_shape(node.right_node))
    if isinstance(node, OrFilterNode):
        return ("||", compiled_shape(node.left_node), compiled_shape(node.right_node))
    return ("?", type(node).__name__)


def kleene(t: Tree, leafval) -> Optional[bool]:
    """Three-valued evaluation; leafval(i) -> True/False/None (None = the leaf does not yield a verdict standalone)."""
    if t[0] == "L":
        return leafval(t[1])
    if t[0] == "!":
        v = kleene(t[1], leafval)
        return None if v is None else (not v)
    a, b = kleene(t[1], leafval), kleene(t[2], leafval)
    if t[0] == "&&":
        if a is False or b is False:
            return False
        return None if (a is None or b is None) else True
    if a is True or b is True:
        return True
    return None if (a is None or b is None) else False


def leaves_of(t: Tree):
    if t[0] == "L":
        return {t[1]}
    out = set()
    for c in t[1:]:
        out |= leaves_of(c)
    return out


_LEAFOUT: Dict[Tuple[int, str, bool], tuple] = {}


def leaf_outcomes():
    if not _LEAFOUT:
        for i, (text, _, _, _) in enumerate(A_LEAVES):
            node = compile_filter(text)
            for eid in ENTRY_IDS_A:
                for sc in (True, False):
                    _LEAFOUT[(i, eid, sc)] = real_eval(node, entries()[eid][0], sc)
    return _LEAFOUT


def _node_cls(node) -> str:
    return type(node).__name__


def check_tree(part, t: Tree, text: str, witness, family: str):
    """Part (a) oracle for one expression on every entry of ENTRY_IDS_A, both modes."""
    lo = leaf_outcomes()
    try:
        root = compile_filter(text)
    except Exception as e:  # noqa
        part.violation("compile", f"compile_filter:{family}", witness, f"{text!r} does not compile: {e!r}"[:300])
        return
    part.count(f"a_{family}_exprs")
    got_shape, want_shape = compiled_shape(root), expected_shape(t)
    if got_shape != want_shape:
        part.violation("shape", f"MessageFilterVisitor:{family}:{t[0]}", witness, f"{text!r}: compiled shape {got_shape!r}, generated {want_shape!r}"[:600])
    kids = []
    if isinstance(root, UnaryNotFilterNode):
        kids = [root.node]
    elif isinstance(root, (AndFilterNode, OrFilterNode)):
        kids = [root.left_node, root.right_node]
    lv = leaves_of(t)
    vec = []
    fwd = {}
    for eid in ENTRY_IDS_A:
        entry = entries()[eid][0]
        res = {}
        for sc in (True, False):
            part.count("evaluations")
            out = real_eval(root, entry, sc)
            res[sc] = out
            raising = [i for i in lv if lo[(i, eid, sc)][0] != "ok"]
            want = kleene(t, lambda i: lo[(i, eid, sc)][1] if lo[(i, eid, sc)][0] == "ok" else None)
            w = {**witness, "entry": eid, "short_circuit": sc}
            site_mode = f"{_node_cls(root)}.match[short_circuit={sc}]"
            if out[0] != "ok":
                if raising:
                    part.count("a_raise_attributed_to_leaf")
                else:
                    part.violation("tree-raises", site_mode, w, f"{text!r} on {eid}: {out}; every leaf matches standalone without error")
                continue
            if want is None:
                part.count("a_verdict_unpinned_leaf_raises")
            elif out[1] != want:
                part.violation("denotation", site_mode, w, f"{text!r} on {eid}: match={out[1]}, the expression denotes {want} "
                                                          f"(leaves: { {A_LEAVES[i][0]: lo[(i, eid, sc)][1:] for i in sorted(lv)} })"[:600])
            if kids:
                kouts = [real_eval(k, entry, sc) for k in kids]
                if all(k[0] == "ok" for k in kouts):
                    vals = [k[1] for k in kouts]
                    comb = (not vals[0]) if len(vals) == 1 else ((vals[0] and vals[1]) if isinstance(root, AndFilterNode) else (vals[0] or vals[1]))
                    if comb != out[1]:
                        part.violation("node-combine", site_mode, w, f"{text!r} on {eid}: node gives {out[1]}, its children standalone give {vals}")
            vec.append(out[1])
        a, b = res[True], res[False]
        if a[0] == "ok" and b[0] == "ok":
            if a[1] != b[1]:
                part.violation("short-circuit-disagree", f"{_node_cls(root)}.match", {**witness, "entry": eid},
                               f"{text!r} on {eid}: short_circuit=True -> {a[1]}, short_circuit=False -> {b[1]}")
        fwd[eid] = (a, b)
        part.outcome(("a", eid, tuple(lo[(i, eid, True)][:2] for i in sorted(lv)), a[:2], b[:2]))
    # the same expression over the entry list in the opposite order: a verdict is a function of (filter, entry) alone
    for eid in reversed(ENTRY_IDS_A):
        entry = entries()[eid][0]
        again = (real_eval(root, entry, True), real_eval(root, entry, False))
        part.count("evaluations", 2)
        if again != fwd[eid]:
            part.violation("evaluation-order-dependence", f"{_node_cls(root)}.match", {**witness, "entry": eid},
                           f"{text!r} on {eid}: {fwd[eid]} when the entries are evaluated in list order, {again} in reverse order")
    if len(set(vec)) > 1:
        part.mark_nontrivial(("a", text))


# chains ------------------------------------------------------------------------------------------
def chain_text(terms, ops) -> str:
    parts = []
    for neg, i in terms:
        lt = A_LEAVES[i][0]
        if neg:
            lt = f"!{lt}" if A_LEAVES[i][2] is None else f"!({lt})"
        parts.append(lt)
    s = parts[0]
    for op, p in zip(ops, parts[1:]):
        s += f" {op} {p}"
    return s


def chain_tree(terms, ops) -> Tree:
    """Documented grammar: expression := term (('||' | '&&') expression)?  => right-nested, no precedence between && and ||."""
    def term(tm):
        neg, i = tm
        return ("!", ("L", i)) if neg else ("L", i)
    t = term(terms[-1])
    for k in range(len(terms) - 2, -1, -1):
        t = (ops[k], term(terms[k]), t)
    return t


def chain_items(quick: bool):
    """Work items (first term, first op) -> the worker enumerates the rest."""
    nl = len(A_LEAVES)
    maxlen = 3 if quick else 4
    items = []
    for n in range(2, maxlen + 1):
        for first in range(nl):
            items.append(("plain", n, first))
        for first in range(4):
            for neg in (False, True):
                items.append(("neg", n, first, neg))
    return items


def _a_chain_work(item):
    part = Part()
    entries()
    kind, n = item[0], item[1]
    if kind == "plain":
        first = item[2]
        for rest in itertools.product(range(len(A_LEAVES)), repeat=n - 1):
            for ops in itertools.product(("&&", "||"), repeat=n - 1):
                terms = [(False, first)] + [(False, i) for i in rest]
                _check_chain(part, terms, list(ops))
    else:
        first, neg0 = item[2], item[3]
        for rest in itertools.product(range(4), repeat=n - 1):
            for negs in itertools.product((False, True), repeat=n - 1):
                if not (neg0 or any(negs)):
                    continue  # covered by the plain family
                for ops in itertools.product(("&&", "||"), repeat=n - 1):
                    terms = [(neg0, first)] + list(zip(negs, rest))
                    _check_chain(part, terms, list(ops))
    return part.dump()


def _check_chain(part, terms, ops):
    text = chain_text(terms, ops)
    t = chain_tree(terms, ops)
    check_tree(part, t, text, {"part": "a-chain", "terms": [[bool(n), i] for n, i in terms], "ops": list(ops), "expr": text}, "chain")


_A_D1: List[Tree] = []


def _a_tree_work(item):
    part = Part()
    entries()
    kind = item[0]
    if kind == "small":  # all trees of depth <= 1
        for t in _A_D1:
            text = render(t)
            check_tree(part, t, text, {"part": "a", "tree": t, "expr": text}, "tree")
            if t[0] == "&&":
                part.sample({"part": "a", "expr": text}, limit=1)
    elif kind == "not":
        for c in _A_D1:
            if tree_depth(c) == 1:
                t = ("!", c)
                text = render(t)
                check_tree(part, t, text, {"part": "a", "tree": t, "expr": text}, "tree")
    else:
        op, li = item[1], item[2]
        l = _A_D1[li]
        for r in _A_D1:
            if tree_depth(l) < 1 and tree_depth(r) < 1:
                continue  # depth-1 tree, already in "small"
            t = (op, l, r)
            text = render(t)
            check_tree(part, t, text, {"part": "a", "tree": t, "expr": text}, "tree")
    return part.dump()


# ================================================================================================
# part (c): explicit-state search on FilteringMessageLogger
# ================================================================================================
C_FILTERS = [
    ("all", ""),
    ("selective", "Foo.Bar.I == 5 || HTTP"),
    ("nothing", "!LLUDP && !EQ && !HTTP"),   # every entry is of one of the three types; all three logged kinds share the NAME Foo
    ("inapplicable", '*.*.* ^= "he"'),   # not applicable to the int field that comes first; the str field S satisfies it
]
C_KINDS = ["LLUDP", "EQ", "HTTP"]
# reference verdict per (filter, kind): written out from the filter text and the logged entries below
C_REF = {
    "all": {"LLUDP": True, "EQ": True, "HTTP": True},
    "selective": {"LLUDP": True, "EQ": False, "HTTP": True},
    "nothing": {"LLUDP": False, "EQ": False, "HTTP": False},
    "inapplicable": {"LLUDP": True, "EQ": False, "HTTP": False},
}


def _snapshot_module_state():
    """Module-level containers of the anchored modules as of import (fresh() puts them back: a world must not inherit state
    from the worlds the same worker process built before -- within one world such state is of course live)."""
    from hippolyzer.lib.proxy import message_filter as mf
    snap = []
    for mod in (ml, mf):
        for name, val in sorted(vars(mod).items()):
            if not name.startswith("__") and type(val) in (dict, list, set):
                snap.append((val, type(val)(val)))
    return snap


_MODULE_STATE = _snapshot_module_state()


def _restore_module_state():
    for live, saved in _MODULE_STATE:
        if live != saved:
            live.clear()
            if isinstance(live, dict):
                live.update(saved)
            elif isinstance(live, list):
                live.extend(saved)
            else:
                live |= saved


class LogWorld:
    def __init__(self, maxlen: int, mode: str = "api"):
        self.maxlen = maxlen
        self.mode = mode
        self.logger = FilteringMessageLogger(maxlen=maxlen)
        self.serial = 0
        self.raw: List[Tuple[str, int]] = []     # model ring buffer: (kind, serial)
        self.aged: List[Tuple[str, int]] = []    # aged out of the ring buffer while visible, still matching every filter since
        self.paused = False
        self.fidx = 0
        self.violations: List[Dict[str, Any]] = []
        # mode "wrap": a second log window (filter stays "all") behind the same WrappingMessageLogger fan-out
        self.logger_b = None
        self.wrapper = None
        self.b_raw: List[Tuple[str, int]] = []
        self.b_aged: List[Tuple[str, int]] = []
        self.b_paused = False
        if mode == "wrap":
            self.logger_b = FilteringMessageLogger(maxlen=maxlen)
            self.wrapper = ml.WrappingMessageLogger()
            self.wrapper.loggers.extend([self.logger, self.logger_b])


def _ident(e) -> Tuple[str, int]:
    if isinstance(e, LLUDPMessageLogEntry):
        return ("LLUDP", int(e.message["Bar"]["Serial"]))
    if isinstance(e, EQMessageLogEntry):
        return ("EQ", int(e.event["body"]["Serial"]))
    if isinstance(e, HTTPMessageLogEntry):
        return ("HTTP", int(e.flow.request.path.rsplit("/", 1)[1]))
    return ("?", -1)


def _impl_state(lg):
    """Everything the logger holds that can influence a future transition: every entry container (ring buffer, view, ...) found
    by type rather than by (private) name -- internal renames / deque<->list swaps do not break the harness --, the containers'
    bounds and the logger's scalar settings."""
    view = [_ident(e) for e in lg]
    containers = []
    config = []
    for name, val in sorted(vars(lg).items()):
        if isinstance(val, (list, tuple)) or type(val).__name__ == "deque":
            items = list(val)
            if all(hasattr(e, "matches") or hasattr(e, "message") for e in items):
                containers.append([_ident(e) for e in items])
                config.append(("bound", repr(getattr(val, "maxlen", None))))
        elif val is None or isinstance(val, (bool, int, str)):
            config.append(("scalar", repr(val)))
    order: dict = {}
    for c in containers + [view]:
        for ident in c:
            order.setdefault(ident, len(order))
    impl = tuple(sorted(tuple((k, order[(k, s)]) for k, s in c) for c in containers))
    view_real = tuple((k, order[(k, s)]) for k, s in view)
    return (impl, view_real, bool(lg.paused), tuple(sorted(config)))


C_MODES = ("api", "direct", "wrap")


class LogHarness:
    """mode = how a log event reaches the logger -- every public entry:
         api     logger.log_lludp_message / log_eq_event / log_http_response          (what the proxy calls on a single logger)
         direct  logger.add_log_entry(entry)                                         (what the fan-out and the log import call)
         wrap    WrappingMessageLogger([logger, second logger]).log_*(...)            (several log windows; + pause/resume of the second)
       The view oracle is the same for every logger in every mode: a paused logger retains nothing that arrives while paused."""
    copyable = False

    def __init__(self, maxlen: int, mode: str = "api"):
        self.maxlen = maxlen
        self.mode = mode

    def fresh(self) -> LogWorld:
        _restore_module_state()
        return LogWorld(self.maxlen, self.mode)

    def enabled(self, w: LogWorld):
        evs = ([("log", k) for k in range(len(C_KINDS))] + [("filter", i) for i in range(len(C_FILTERS))]
               + [("pause",), ("resume",), ("clear",)])
        if self.mode == "wrap":
            evs += [("pauseB",), ("resumeB",)]
        return evs

    def deviation(self, ev) -> int:
        return 0

    def canon(self, w: LogWorld):
        c = (_impl_state(w.logger), w.fidx, tuple(k for k, _ in w.raw), tuple(k for k, _ in w.aged), w.paused)
        if w.logger_b is not None:
            c += (_impl_state(w.logger_b), tuple(k for k, _ in w.b_raw), tuple(k for k, _ in w.b_aged), w.b_paused)
        return c

    def nontrivial(self, w: LogWorld, hist):
        if w.aged or (w.raw and len(self._expected(w)) != len(w.raw) + len(w.aged)) or (w.logger_b is not None and w.b_raw != w.raw):
            return self.canon(w)
        return None

    def observe(self, w: LogWorld):
        return (tuple(k for k, _ in self._expected(w)), w.fidx, tuple(k for k, _ in w.b_raw))

    def _expected(self, w: LogWorld):
        ref = C_REF[C_FILTERS[w.fidx][0]]
        return list(w.aged) + [e for e in w.raw if ref[e[0]]]

    def _deliver(self, w: LogWorld, k: str):
        lg = w.logger
        target = w.wrapper if self.mode == "wrap" else lg
        if k == "LLUDP":
            m = Message("Foo", Block("Bar", I=5, S="hello", Serial=w.serial), packet_id=w.serial)
            if self.mode == "direct":
                lg.add_log_entry(LLUDPMessageLogEntry(m, None, None))
            else:
                target.log_lludp_message(None, None, m)
        elif k == "EQ":
            ev = {"message": "Foo", "body": {"Serial": w.serial}}
            if self.mode == "direct":
                lg.add_log_entry(EQMessageLogEntry(ev, None, None))
            else:
                target.log_eq_event(None, None, ev)
        else:
            flow = _http_flow(w.serial, "Foo", path=f"/cap/{w.serial}")
            if self.mode == "direct":
                lg.add_log_entry(HTTPMessageLogEntry(flow))
            else:
                target.log_http_response(flow)

    def step(self, w: LogWorld, ev):
        lg = w.logger
        fname = C_FILTERS[w.fidx][0]
        kind = ev[0]
        with _recording_log() as rec:
            try:
                if kind == "log":
                    w.serial += 1
                    self._deliver(w, C_KINDS[ev[1]])
                elif kind == "filter":
                    lg.set_filter(C_FILTERS[ev[1]][1])
                elif kind == "pause":
                    lg.set_paused(True)
                elif kind == "resume":
                    lg.set_paused(False)
                elif kind == "pauseB":
                    w.logger_b.set_paused(True)
                elif kind == "resumeB":
                    w.logger_b.set_paused(False)
                else:
                    lg.clear()
            except Exception as e:  # noqa
                tag = C_FILTERS[ev[1]][0] if kind == "filter" else fname
                clause = "set_filter-raises" if kind == "filter" else "op-raises"
                w.violations.append({"clause": clause, "site": f"FilteringMessageLogger.{'set_filter' if kind == 'filter' else kind}[{tag}]",
                                     "detail": f"{ev} ({self.mode}) raised {type(e).__name__}: {e}"[:300]})
        # model step
        if kind == "log":
            ident = (C_KINDS[ev[1]], w.serial)
            if not w.paused:
                ref = C_REF[fname]
                w.raw.append(ident)
                if len(w.raw) > w.maxlen:
                    old = w.raw.pop(0)
                    if ref[old[0]]:
                        w.aged.append(old)
            if w.logger_b is not None and not w.b_paused:
                w.b_raw.append(ident)
                if len(w.b_raw) > w.maxlen:
                    w.b_aged.append(w.b_raw.pop(0))
        elif kind == "filter":
            w.fidx = ev[1]
            ref = C_REF[C_FILTERS[w.fidx][0]]
            w.aged = [e for e in w.aged if ref[e[0]]]
        elif kind == "pause":
            w.paused = True
        elif kind == "resume":
            w.paused = False
        elif kind == "pauseB":
            w.b_paused = True
        elif kind == "resumeB":
            w.b_paused = False
        else:
            w.raw, w.aged = [], []
        # oracle
        tag = C_FILTERS[w.fidx][0]
        op = {"log": "add_log_entry", "filter": "set_filter", "pause": "set_paused", "resume": "set_paused", "clear": "clear",
              "pauseB": "set_paused", "resumeB": "set_paused"}[kind]
        via = "" if self.mode == "api" else f"[via {'add_log_entry' if self.mode == 'direct' else 'WrappingMessageLogger'}]"
        site = f"FilteringMessageLogger.{op}" + ("[inapplicable-filter]" if tag == "inapplicable" else "") + via
        if rec.records:
            w.violations.append({"clause": "logger-filter-error", "site": site,
                                 "detail": f"{ev} under filter {C_FILTERS[w.fidx][1]!r} logged an exception: {rec.records[0]}"})
        view = [_ident(e) for e in lg]
        want = self._expected(w)
        if len(set(view)) != len(view):
            w.violations.append({"clause": "view-duplicates", "site": site, "detail": f"view {view} shows an entry twice (filter {tag})"})
        if view != want:
            w.violations.append({"clause": "view-equals-filtered-log", "site": site,
                                 "detail": f"after {ev} ({self.mode}) with filter {tag} ({C_FILTERS[w.fidx][1]!r}), paused={w.paused}: view {view}, "
                                           f"retained entries matching the filter {want} (ring buffer {w.raw}, aged-out visible {w.aged})"})
        if w.logger_b is not None:
            view_b = [_ident(e) for e in w.logger_b]
            want_b = list(w.b_aged) + list(w.b_raw)
            if view_b != want_b:
                w.violations.append({"clause": "view-equals-filtered-log", "site": site + "[second logger]",
                                     "detail": f"after {ev} second logger (filter all, paused={w.b_paused}): view {view_b}, expected {want_b}"})


# overflow family: exhaustive over a stated *shape*, without state deduplication (does not depend on canon() seeing every piece
# of implementation state): prefix . set_filter(narrowing) . log^(maxlen+1 .. maxlen+2) (every kind sequence) . set_filter(wider)
OVF_MAXLEN = 2
OVF_PREFIXES = [[], [("clear",)], [("log", 0), ("clear",)], [("pause",), ("resume",)], [("log", 1), ("log", 2), ("log", 0)]]
OVF_NARROW = [1, 2]   # selective, nothing
OVF_WIDER = [0, 1]    # all, selective


def _ovf_work(item):
    pi, f, g = item
    part = Part()
    h = LogHarness(OVF_MAXLEN)
    for n in (OVF_MAXLEN + 1, OVF_MAXLEN + 2):
        for kinds in itertools.product(range(len(C_KINDS)), repeat=n):
            hist = list(OVF_PREFIXES[pi]) + [("filter", f)] + [("log", k) for k in kinds] + [("filter", g)]
            w = h.fresh()
            part.count("c_overflow_histories")
            for i, ev in enumerate(hist):
                w.violations = []
                h.step(w, ev)
                part.count("evaluations")
                part.count("c_overflow_steps")
                if w.violations:
                    for v in w.violations:
                        part.violation(v["clause"], v["site"], {"history": [list(e) for e in hist[:i + 1]]}, v.get("detail", ""))
                    break
            else:
                part.outcome(("c-ovf", h.observe(w)))
                if w.aged or len(h._expected(w)) != len(w.raw):
                    part.mark_nontrivial(("c-ovf", pi, f, g, kinds))
    return part.dump()


# ================================================================================================
# part (d): export/import, freeze/thaw
# ================================================================================================
_G: Optional[msggen.Gen] = None
_D_ROWS_ALL = False


def _typed(x):
    """Value together with its kind: a tuple is not a list, None is not 0, True is not 1 (what a filter / a consumer can tell apart).
    bytes and bytearray count as the same kind (both compare and behave as bytes); int subclasses (flag enums) as int."""
    if x is None:
        return ("none",)
    if isinstance(x, bool):
        return ("bool", x)
    if isinstance(x, int):
        return ("int", int(x))
    if isinstance(x, float):
        return ("float", repr(x))
    if isinstance(x, str):
        return ("str", str(x))
    if isinstance(x, (bytes, bytearray)):
        return ("bytes", bytes(x))
    if isinstance(x, _uuid.UUID):
        return ("uuid", str(x))
    if isinstance(x, Direction):
        return ("direction", x.name)
    if isinstance(x, tuple):
        return ("tuple", tuple(_typed(e) for e in x))
    if isinstance(x, list):
        return ("list", tuple(_typed(e) for e in x))
    if isinstance(x, dict):
        return ("dict", tuple(sorted((str(k), _typed(v)) for k, v in x.items())))
    return (type(x).__name__, repr(x))


def _hdr_of(m) -> dict:
    """Header attributes of a message, type-exact (see _typed), + block lists."""
    return {"name": _typed(m.name), "direction": _typed(m.direction), "flags": _typed(m.send_flags), "packet_id": _typed(m.packet_id),
            "acks": _typed(m.acks), "extra": _typed(m.extra), "dropped": _typed(m.dropped), "synthetic": _typed(m.synthetic),
            "meta": _typed(m.meta), "blocks": tuple((b, len(bl)) for b, bl in m.blocks.items())}


D_META = {"ObjectUpdateIDs": (7, 8), "AgentLocal": 2}   # what the object manager / addons attach to a logged message


def check_d_case(part, gen, name: str, k: int, case: dict, variant: Optional[int] = None, no_packet_id: bool = False):
    wbase = {"part": "d", "seed": gen.seed, "name": name, "row": k}
    if variant is not None:
        wbase = {"part": "d", "seed": gen.seed, "name": name, "variant": variant, "tag": case.get("tag")}
    if no_packet_id:
        wbase["no_packet_id"] = True
    base = gen.lib_message(case)
    try:
        b0 = bytes(_SER.serialize(base))
    except Exception:  # noqa  (C01's business)
        part.count("d_skipped_unserializable")
        return
    de = _deferred_deserializer()
    # block lists (names in order, multiplicities -- a list that is present with zero blocks is part of the message)
    blocks_fresh = tuple((b, len(rows)) for b, rows in case["blocks"])
    try:
        blocks_wire = tuple((b, len(bl)) for b, bl in de.deserialize(b0).blocks.items())
    except Exception:  # noqa  (C01's business)
        part.count("d_skipped_undecodable")
        blocks_wire = None
    for mode in ("fresh", "wire"):
        if mode == "wire" and (blocks_wire is None or no_packet_id):
            continue  # a datagram always carries a packet id
        for frozen in (False, True):
            if mode == "fresh":
                m = gen.lib_message(case)
                m.direction = Direction.OUT
            else:
                m = de.deserialize(b0)
                m.direction = Direction.IN
            m.dropped = bool(k % 2)
            m.synthetic = (k % 3 == 2) or no_packet_id
            if no_packet_id:
                m.packet_id = None  # a message the proxy/addon built itself and that was logged before it got an id
            m.meta = dict(D_META) if k % 2 == 0 else {}
            # expectation written from the generator's plain data, not read back from the message
            want = {"name": ("str", name), "direction": ("direction", "OUT" if mode == "fresh" else "IN"), "flags": ("int", int(case["flags"])),
                    "packet_id": ("none",) if no_packet_id else ("int", int(case["packet_id"])),
                    "acks": ("tuple", tuple(("int", int(a)) for a in case["acks"])), "extra": ("bytes", bytes(case["extra"])),
                    "dropped": ("bool", bool(k % 2)), "synthetic": ("bool", bool((k % 3 == 2) or no_packet_id)),
                    "meta": _typed(dict(D_META) if k % 2 == 0 else {}),
                    "blocks": blocks_fresh if mode == "fresh" else blocks_wire}
            ent = LLUDPMessageLogEntry(m, None, None)
            w = {**wbase, "mode": mode, "frozen": frozen}
            if frozen:
                part.count("evaluations")
                try:
                    ent.freeze()
                    m2 = ent.message
                    _compare_msg(part, "thaw-preserves", "LLUDPMessageLogEntry.freeze", m2, want, b0, w, ent)
                except Exception as e:  # noqa
                    part.violation("thaw-preserves", f"LLUDPMessageLogEntry.freeze:{type(e).__name__}", w, f"{name} row {k} {mode}: {e!r}"[:300])
                    continue
            part.count("evaluations")
            try:
                back = import_log_entries(export_log_entries([ent]))
                if len(back) != 1 or not isinstance(back[0], LLUDPMessageLogEntry):
                    part.violation("export-preserves", "import_log_entries:LLUDP:count", w, f"{name}: got {back!r}"[:200])
                    continue
                _compare_msg(part, "export-preserves", "export_log_entries:LLUDP", back[0].message, want, b0, w, back[0])
            except Exception as e:  # noqa
                part.violation("export-preserves", f"export_log_entries:LLUDP:{type(e).__name__}", w, f"{name} row {k} {mode} frozen={frozen}: {e!r}"[:300])
    part.mark_nontrivial(("d", name, k, case.get("tag"), case["flags"], len(case["acks"]), len(case["extra"]), no_packet_id))
    part.outcome(("d", len(b0), b0[:10]))


def _compare_msg(part, clause, site, m2, want, b0, w, ent2):
    got = _hdr_of(m2)
    name = want["name"][1]
    for key in want:
        if got[key] != want[key]:
            part.violation(clause, f"{site}:{key}", w, f"{name}: {key} was {want[key]!r}, came back {got[key]!r}"[:500])
    pid = None if want["packet_id"] == ("none",) else want["packet_id"][1]
    if (ent2.name, ent2.method, ent2.seq, ent2.type) != (name, want["direction"][1], pid, "LLUDP"):
        part.violation(clause, f"{site}:entry-columns", w, f"entry name/method/seq/type {(ent2.name, ent2.method, ent2.seq, ent2.type)} vs message {want}"[:500])
    try:
        if pid is None and m2.packet_id is None:
            m2.packet_id = 1  # only to be able to write the datagram; b0 was written with the generator's id... see caller
        b2 = bytes(_SER.serialize(m2))
    except Exception as e:  # noqa
        part.violation(clause, f"{site}:serialize:{type(e).__name__}", w, f"{name}: re-serializing raised {e!r} (block lists "
                                                                          f"{got['blocks']}, were {want['blocks']})"[:400])
        return
    if pid is None:
        b2, b0 = b2[:1] + b2[5:], b0[:1] + b0[5:]  # compare everything but the sequence number
    if b2 != b0:
        i = next((j for j in range(min(len(b2), len(b0))) if b2[j] != b0[j]), min(len(b2), len(b0)))
        part.violation(clause, f"{site}:datagram" + ("" if got["blocks"] != want["blocks"] else f":{name}"), w,
                       f"datagram differs at offset {i}: {b2[i:i + 8].hex()} vs {b0[i:i + 8].hex()} (len {len(b2)} vs {len(b0)})")


def _d_work(names: List[str]):
    part = Part()
    gen = _G
    for name in names:
        for k, case in enumerate(gen.value_rows(name)):
            if k > 0 and not _D_ROWS_ALL:
                break
            check_d_case(part, gen, name, k, case)
            if k == 0:
                check_d_case(part, gen, name, k, case, no_packet_id=True)
        # block-count variants: Variable blocks with 0 / 2 (thorough: 255) entries, mixed counts, trailing blocks left out
        for j, case in enumerate(gen.count_variants(name)):
            if not _D_ROWS_ALL and "255" in case["tag"]:
                continue
            part.count("d_count_variants")
            check_d_case(part, gen, name, j, case, variant=j)
    return part.dump()


# ---- differential oracle: a leaf filter gives the same verdict on an entry before and after export+import / freeze+thaw -----
DIFF_OPS = (None, "==", "!=")


def _diff_filters():
    out = []
    for sel, shape in SELECTORS:
        for op in DIFF_OPS:
            for lit in ([None] if op is None else LITS):
                out.append((tuple(sel), shape, op, lit))
    return out


def _verdicts(nodes, entry):
    return [(real_eval(n, entry, True), real_eval(n, entry, False)) for n in nodes]


def check_diff_entry(part, eid: str, only=None):
    """Every leaf filter of the (b) table with bare / == / != on one entry: verdict before == verdict after export+import, after
    freeze (thawed on access), and after freeze+export+import.  No hand-written expectation."""
    built = build_entries()
    entry, spec = built[eid]
    filters = [f for f in _diff_filters() if only is None or (list(f[0]), f[2], f[3].text if f[3] else None) == only]
    nodes = [compile_filter(leaf_text(sel, op, lit.text if lit else None)) for sel, _, op, lit in filters]
    before = _verdicts(nodes, entry)
    stages = []
    try:
        stages.append(("export", "export_log_entries", import_log_entries(export_log_entries([entry]))[0]))
    except Exception as e:  # noqa
        part.violation("export-changes-verdict", f"export_log_entries:{spec.kind}:{type(e).__name__}", {"part": "e", "entry": eid}, f"{eid}: {e!r}"[:300])
    try:
        entry.freeze()
        stages.append(("thaw", "freeze", entry))
        stages.append(("export", "freeze+export_log_entries", import_log_entries(export_log_entries([entry]))[0]))
    except Exception as e:  # noqa
        part.violation("thaw-changes-verdict", f"freeze:{spec.kind}:{type(e).__name__}", {"part": "e", "entry": eid}, f"{eid}: {e!r}"[:300])
    for kind, how, ent2 in stages:
        after = _verdicts(nodes, ent2)
        part.count("evaluations", 2 * len(nodes))
        part.count("e_diff_evals", 2 * len(nodes))
        for (sel, shape, op, lit), b, a in zip(filters, before, after):
            if a != b:
                if sel[0] == "Meta" and len(sel) > 1:
                    where = f"Meta.{sel[1]}"
                else:
                    kinds = ref_leaf(spec, sel, op, lit)[3]  # only to name the site by the selected field's type
                    where = f"field:{kinds[0] if len(set(kinds)) == 1 else shape}"
                text = leaf_text(sel, op, lit.text if lit else None)
                part.violation(f"{kind}-changes-verdict", f"{how}:{spec.kind}:{where}",
                               {"part": "e", "entry": eid, "selector": list(sel), "op": op, "lit": lit.text if lit else None},
                               f"{text!r} on {eid}: {b} on the logged entry, {a} after {how}")
            elif b[0][0] == "ok" and b[0][1]:
                part.mark_nontrivial(("e", eid, sel, op, lit.text if lit else None, how))
        part.outcome(("e", eid, how, sum(1 for b in after if b[0][:2] == ("ok", True))))


def _e_work(eid):
    part = Part()
    entries()
    check_diff_entry(part, eid)
    return part.dump()


EQ_EVENTS = [
    {"message": "EstablishAgentCommunication", "body": {"agent-id": UUID(int=3), "sim-ip-and-port": "1.2.3.4:5", "seed-capability": "http://x/cap"}},
    {"message": "Foo", "body": {}},
    {"message": "Values", "body": {"i": 5, "neg": -7, "big": 2 ** 31 - 1, "f": 1.5, "s": "héllo ✓ 'q' \"q\" \\ \n", "b": b"\x00\xff'\"", "t": True,
                                   "fl": False, "u": None, "l": [1, "a", [2, {"k": UUID(int=1)}]], "d": {"n": {"m": []}}}},
    {"message": "ParcelProperties", "body": {"ParcelData": [{"LocalID": 5, "Name": "parcel"}], "AgeVerificationBlock": [{"RegionDenyAgeUnverified": False}]}},
]

HTTP_VARIANTS = [
    dict(cap="FakeCap", method="GET", status=200, cookie='foo="bar"', path="/path", content=b"message"),
    dict(cap=None, method="POST", status=404, cookie=None, path="/a/b?c=d&e=%20f", content=b""),
    dict(cap="Seed", method="PUT", status=500, cookie="a=b; c='d'", path="/x", content=b"\x00\xff\xfe binary ' \" \\ \n"),
    dict(cap="GetTexture", method="GET", status=206, cookie=None, path="/tex", content="<llsd><map><key>k</key><string>v</string></map></llsd>".encode()),
]


def check_d_eq(part, idx: int):
    ev = EQ_EVENTS[idx]
    w = {"part": "d-eq", "index": idx}
    part.count("evaluations")
    import copy
    ent = EQMessageLogEntry(copy.deepcopy(ev), None, None)
    try:
        ent.freeze()
        back = import_log_entries(export_log_entries([ent]))
    except Exception as e:  # noqa
        part.violation("export-preserves", f"export_log_entries:EQ:{type(e).__name__}", w, f"{ev['message']}: {e!r}"[:300])
        return
    if len(back) != 1 or not isinstance(back[0], EQMessageLogEntry):
        part.violation("export-preserves", "import_log_entries:EQ:count", w, repr(back)[:200])
        return
    if back[0].event != ev or back[0].name != ev["message"] or back[0].type != "EQ":
        part.violation("export-preserves", "export_log_entries:EQ:event", w, f"event {ev!r} came back {back[0].event!r}"[:600])
    if ent.event != ev:
        part.violation("thaw-preserves", "EQMessageLogEntry.freeze", w, "freeze changed the event")
    part.mark_nontrivial(("d-eq", idx))
    part.outcome(("d-eq", idx))


def _http_view(flow) -> dict:
    rq, rs = flow.request, flow.response
    return {"method": rq.method, "url": rq.url, "http_version": rq.http_version, "req_headers": tuple(rq.headers.fields), "req_content": rq.content,
            "status": rs.status_code, "reason": rs.reason, "resp_headers": tuple(rs.headers.fields), "resp_content": rs.content,
            "cap_name": flow.cap_data.cap_name if flow.cap_data else None, "request_injected": flow.request_injected}


def check_d_http(part, idx: int):
    v = HTTP_VARIANTS[idx]
    w = {"part": "d-http", "index": idx}
    part.count("evaluations")
    flow = _http_flow(100 + idx, v["cap"], method=v["method"], status=v["status"], cookie=v["cookie"], path=v["path"], content=v["content"])
    ent = HTTPMessageLogEntry(flow)
    want = _http_view(flow)
    want_cols = (ent.name, ent.method, ent.type)
    try:
        ent.freeze()
        back = import_log_entries(export_log_entries([ent]))
    except Exception as e:  # noqa
        part.violation("export-preserves", f"export_log_entries:HTTP:{type(e).__name__}", w, f"{v}: {e!r}"[:300])
        return
    if len(back) != 1 or not isinstance(back[0], HTTPMessageLogEntry):
        part.violation("export-preserves", "import_log_entries:HTTP:count", w, repr(back)[:200])
        return
    got = _http_view(back[0].flow)
    for key in want:
        if got[key] != want[key]:
            part.violation("export-preserves", f"export_log_entries:HTTP:{key}", w, f"{key} was {want[key]!r}, came back {got[key]!r}"[:400])
    if (back[0].name, back[0].method, back[0].type) != want_cols:
        part.violation("export-preserves", "export_log_entries:HTTP:entry-columns", w, f"{(back[0].name, back[0].method, back[0].type)} vs {want_cols}")
    if _http_view(ent.flow) != want:
        part.violation("thaw-preserves", "HTTPMessageLogEntry.freeze", w, "freeze/export changed the original flow")
    part.mark_nontrivial(("d-http", idx))
    part.outcome(("d-http", idx, got["status"]))


# ================================================================================================
# run / replay
# ================================================================================================
def run(run: Run):
    global _G, _D_ROWS_ALL, _A_D1
    quick = run.tier == "quick"
    entries()
    leaf_outcomes()
    walls: Dict[str, float] = {}
    t_part = time.time()

    # ---- (a) -------------------------------------------------------------------------------------
    # leaves themselves against the reference (so that a raising leaf is reported where it belongs)
    for i, (text, sel, op, lit) in enumerate(A_LEAVES):
        node = compile_filter(text)
        for eid in ENTRY_IDS_A:
            check_leaf(run, node, text, sel, op, A_LITS[lit] if lit else None, eid,
                       {"part": "b", "selector": list(sel), "op": op, "lit": lit, "entry": eid, "a_leaf": True})
    nl = 5 if quick else len(A_LEAVES)
    _A_D1 = trees_depth_le(nl, 1)
    items = [("small",), ("not",)] + [("bin", op, li) for op in ("&&", "||") for li in range(len(_A_D1))]
    for d in pmap(_a_tree_work, items, run.jobs):
        run.merge(d)
    for d in pmap(_a_chain_work, chain_items(quick), run.jobs):
        run.merge(d)
    n_trees = run.counters.get("a_tree_exprs", 0)
    n_chains = run.counters.get("a_chain_exprs", 0)

    walls["a"], t_part = round(time.time() - t_part, 1), time.time()
    # ---- (b) -------------------------------------------------------------------------------------
    b_items = [(sel, op) for sel, _ in SELECTORS for op in OPS]
    for d in pmap(_b_work, b_items, run.jobs):
        run.merge(d)

    walls["b"], t_part = round(time.time() - t_part, 1), time.time()
    # ---- (c) -------------------------------------------------------------------------------------
    depth = 5 if quick else 7
    wrap_depth = 4 if quick else 6
    for maxlen in (1, 2, 3):
        explore.bfs(run, LogHarness(maxlen), depth=depth, dev_bound=0, label=f"view maxlen={maxlen} ")
    for mode in ("direct", "wrap"):  # the other public ways an entry reaches a logger
        # the fan-out search has two loggers' worth of state: one level shallower (wrap_depth)
        explore.bfs(run, LogHarness(2, mode), depth=depth if mode == "direct" else wrap_depth, dev_bound=0,
                    label=f"view maxlen=2 via {mode} ")
    ovf_items = [(pi, f, g) for pi in range(len(OVF_PREFIXES)) for f in OVF_NARROW for g in OVF_WIDER]
    for d in pmap(_ovf_work, ovf_items, run.jobs):
        run.merge(d)
    for v in run.violations:
        wit = v["witness"]
        if isinstance(wit, dict) and "history" in wit and "part" not in wit:
            hist = wit["history"]
            wrap_only = any(e[0] in ("pauseB", "resumeB") for e in hist)
            for maxlen, mode in [(2, "api"), (1, "api"), (3, "api"), (2, "direct"), (2, "wrap")]:
                if ("[via add_log_entry]" in v["site"]) != (mode == "direct") or ("[via Wrapping" in v["site"]) != (mode == "wrap") \
                        or (wrap_only and mode != "wrap"):
                    continue
                h = LogHarness(maxlen, mode)
                got = explore.replay_history(h, hist)
                if any(g["clause"] == v["clause"] and g["site"] == v["site"] for g in got):
                    small = explore._minimise_tuples(h, hist, v["clause"], v["site"])
                    v["witness"] = {"part": "c", "maxlen": maxlen, "mode": mode, "history": [list(e) for e in small]}
                    break

    walls["c"], t_part = round(time.time() - t_part, 1), time.time()
    # ---- (d) -------------------------------------------------------------------------------------
    _G = msggen.Gen(run.seed, finite_only=False)
    _D_ROWS_ALL = not quick
    names = list(_G.templates)
    if len(names) < 480:
        raise RuntimeError("reference template parse found too few templates")
    chunks = [names[i:i + 8] for i in range(0, len(names), 8)]
    for d in pmap(_d_work, chunks, run.jobs):
        run.merge(d)
    for d in pmap(_e_work, [e for e in ENTRY_IDS_B if e != "udp_foo_frozen"], run.jobs):
        run.merge(d)
    for i in range(len(EQ_EVENTS)):
        check_d_eq(run, i)
    for i in range(len(HTTP_VARIANTS)):
        check_d_http(run, i)

    walls["d"] = round(time.time() - t_part, 1)
    run.coverage_extra["part_wall_s"] = walls

    run.rule = (
        f"(a) all {n_trees} fully parenthesised expression trees of depth <= 2 over {{!, &&, ||}} on {nl} leaf filters + all {n_chains} "
        f"unparenthesised chains of length 2..{3 if quick else 4} (all leaves; negated terms over 4 leaves) x {len(ENTRY_IDS_A)} entries x "
        f"short_circuit {{T,F}}; (b) {len(SELECTORS)} selectors x 11 operators x {len(LITS)} literals x {len(ENTRY_IDS_B)} entries x {{T,F}}, also "
        f"through FilteringMessageLogger.add_log_entry/set_filter; (c) BFS to depth {depth} over {{log(LLUDP|EQ|HTTP), set_filter(x4), pause, "
        f"resume, clear}} on FilteringMessageLogger(maxlen 1, 2, 3 via log_*; maxlen 2 via add_log_entry; maxlen 2 behind a WrappingMessageLogger "
        f"with a second logger and its pause/resume, depth {wrap_depth}) + every history prefix.set_filter(narrowing).log^(3..4).set_filter(wider) "
        f"on maxlen 2 without deduplication ({run.counters.get('c_overflow_histories', 0)} histories), states deduplicated on (ring-buffer kinds, view as (kind, ring position), "
        f"paused, filter); (d) {'every value row' if not quick else 'row 0'} of each of {len(names)} templates x {{fresh, wire-decoded}} x "
        f"{{frozen, not}} through freeze/thaw and export/import, {len(EQ_EVENTS)} EQ events, {len(HTTP_VARIANTS)} HTTP flows. "
        "distinct_nontrivial = expressions whose verdict differs between entries (a), leaf/entry pairs selecting several fields or an "
        "inapplicable one (b), logger states with an aged-out visible entry or a hidden retained entry (c), message shapes (d)")
    run.assumptions += [
        "chains without parentheses are read as the grammar documents them: expression := term (op expression)? -- right-nested, no "
        "precedence between && and ||, '!' applies to the next term only",
        "a bare 3/4-part selector asserts presence of the (sub)field, a bare Meta selector truthiness; comparison on a bare message name "
        "selects nothing; values that are not plain data (UUID) compare by their string form; Vector comparisons hold on all axes",
        "verdict not pinned (only 'no exception' demanded) for: text-from-wire (JankStringyBytes) fields against str with ^= $= < <= > >=, "
        "$= against bytes, ~= int against bytes, vector comparisons against a tuple of another length",
        "enum specifiers name existing enums/members, Meta specifiers are single-level (anything else is a malformed filter)",
        "'retained' = ring buffer (last maxlen logged while not paused) + entries that aged out while visible and matched every later filter",
        "trusted: fnmatch, the C01 codec (wire-decoded entries), mitmproxy test flows, hmc.msggen value rows",
    ]
    run.coverage_extra.update({"a_trees": n_trees, "a_chains": n_chains, "b_filters": run.counters.get("b_filters", 0),
                               "c_depth": depth, "d_templates": len(names)})


def replay(w):
    part = Part()
    entries()
    p = w.get("part")
    if p == "c" or (p is None and "history" in w):
        return explore.replay_history(LogHarness(int(w.get("maxlen", 3)), w.get("mode", "api")), w["history"])
    if p == "a":
        t = _tuplify(w["tree"])
        check_tree(part, t, render(t), {"part": "a", "tree": t}, "tree")
    elif p == "a-chain":
        terms = [(bool(n), int(i)) for n, i in w["terms"]]
        _check_chain(part, terms, list(w["ops"]))
    elif p == "b":
        sel = tuple(w["selector"])
        lit = None
        if w.get("lit") is not None:
            lit = LIT_BY_TEXT.get(w["lit"]) or A_LITS.get(w["lit"])
        _b_check_filter(part, sel, w.get("op"), lit, [w["entry"]] if w.get("entry") else ENTRY_IDS_B)
    elif p == "d":
        gen = msggen.Gen(int(w.get("seed", 0)))
        if "variant" in w:
            for j, case in enumerate(gen.count_variants(w["name"])):
                if j == int(w["variant"]):
                    check_d_case(part, gen, w["name"], j, case, variant=j)
        else:
            for k, case in enumerate(gen.value_rows(w["name"])):
                if k == int(w["row"]):
                    check_d_case(part, gen, w["name"], k, case, no_packet_id=bool(w.get("no_packet_id")))
    elif p == "e":
        check_diff_entry(part, w["entry"], only=[list(w["selector"]), w.get("op"), w.get("lit")] if w.get("selector") else None)
    elif p == "d-eq":
        check_d_eq(part, int(w["index"]))
    elif p == "d-http":
        check_d_http(part, int(w["index"]))
    return list(part.viol.values())


def _tuplify(x):
    if isinstance(x, list):
        return tuple(_tuplify(e) for e in x)
    return x

"""C15 -- intercepted HTTP flows are handed back exactly once, state intact (exhaustive fault enumeration).

Seam: the real ``MITMProxyEventManager.pump_proxy_event`` between two in-memory queues (``hmc.httpharness``); flows are real
mitmproxy ``HTTPFlow`` objects intercepted by the real ``SLMITMAddon`` hooks; 2 sessions x 2 regions whose circuit addresses
are the same in both sessions and which share the asset-server URL (collisions on purpose).  Second seam: the real
``IPCInterceptionAddon._pump_callbacks`` coroutine driven by the virtual loop with instrumented flows.

Stage "pump" (one evaluation = one fresh environment):
  flows   {request, response} x cap kind {none, normal, seed, eq, proxyonly, wrapper, asset, upload, tempuploader, login,
          bridge} x {plain, X-Hippo-Injected, browser} x body {empty, valid, malformed} (+ a non-200 answer for responses)
  faults  none | addon1 hook raises (swallowed / propagating AddonManager) | addon2 hook raises (both modes) | session
          http_message_handler subscriber raises | region subscriber raises | message_logger.log_http_response raises |
          asset_repo.try_serve_asset raises | session_manager.resolve_cap raises ; a malformed body is the LLSD / XML-RPC
          parsing fault; subscriber that *takes* the flow and releases it one pump later; real ``wait_for()`` and
          ``subscribe_async()`` waiters on the session-level and on the region-level http_message_handler -- with the default
          take mode they own the flow until they resume() it one pump later, with take=False they must not delay the hand-back
          (every response flow x 8 waiter kinds x {ignore, take_later1, handled}); wait_for() waiters that ended by timeout,
          by cancellation or by an earlier flow *before* the flow under test arrives own nothing (every response flow x 6)
  addon behaviours  ignore | take | take+resume inside the hook | take, resume after 1 / 2 further pumps | resume twice inside
          the hook | take, resume later, resume again | inject a response | rewrite the URL | clear can_stream | return True |
          resume then (inject a response +) preempt later | take+resume in the hook, preempt one pump later | take, resume
          one pump later, preempt another pump later (the preempt item must exist once and carry the injected response) |
          preempt before any resume | take, then the flow's region is dropped from the session /
          its session is closed (and garbage-collected), then resume (all flows; x single faults on the plain/valid flows)
  enumerated: all flows x all single faults x all behaviours of addon1; then all pairs of faults, and all pairs of behaviours
  (addon1 x addon2) -- on every flow in the thorough tier, on the plain/valid flows in the quick tier; thorough adds
  behaviour pair x single fault on the plain/valid flows.
  Oracle (ownership is read off the addons' own logs: an actor owns the flow from a successful take() to its successful resume()):
    handback-immediate   not owned after the pump  -> exactly one ("callback", id, state) for the flow is on the to-proxy queue
    handback-while-owned owned after the pump      -> none
    handback-duplicate   never more than one, at any time
    handback-on-release  the owner's later resume() puts exactly one
    second-take-accepted  a flow that has an owner is never handed to a second one (two addons' hooks; a session-level and a
                         region-level waiter on the same flow): take() must refuse
    second-resume-accepted / preempt-before-resume-accepted  the guards must refuse (AssertionError) and queue nothing
    later-flow-affected  two further events of another flow are each handed back exactly once, whatever happened before
    queue-consumption    every pump consumes exactly one event
    transfer-*           URL rewritten / response injected / can_stream cleared by an addon before the hand-back is what the
                         callback state delivers to the mitmproxy side (not for wrapper caps, which the event manager rewrites itself)
Stage "state": HippoHTTPFlow.from_state(flow.get_state(), session_manager), directly and through pickle, for every cap kind
  x 2 sessions x 2 regions x flags x every subset of {rewritten URL, injected response, can_stream cleared}: cap name, type,
  base URL, *identity* of session and region, request_injected, response_injected, can_stream, from_browser, URL, response
  (status, headers, body) are unchanged; plus the two-phase check through the real pumps: the cap data an addon sees in
  handle_http_response is the cap data resolved in the request phase (same objects), and the flow handed back after the
  request leg *and* after the response leg carries the cap name / type / base URL / session id / region address the harness'
  own cap table prescribes -- for viewer, browser and X-Hippo-Injected (the proxy's own) requests alike, also when the
  incoming state (a replayed flow) already carries a stale cap_data_ser that no longer matches what the URL resolves to
  (another cap / session / region, or nothing at all after a TEMPORARY cap was consumed).
Stage "wrapper": requests to GetMesh2 / GetTexture / ViewerAsset ``...ProxyWrapper`` URLs x {redirect strategy, after a direct
  asset-server request switched the manager to the URL-rewrite strategy} x can_stream {kept, cleared by either addon} x
  {addon1, addon2 rewrites} x {path+query rewritten on the wrapper host, whole URL rewritten}: whichever form the hand-back
  takes (injected 307 Location / rewritten request URL), it carries the addon's path and query on the original cap's host.
Stage "mirror": {request, response hook} x cap kinds x {copy + replay, copy only}: the hook copies the intercepted flow and asks the
  proxy to replay the retargeted copy while the original is still intercepted (addon_examples/message_mirror.py); the real
  ``_pump_callbacks`` coroutine consumes the to-proxy queue (only mitmproxy's ``replay.client`` command is stubbed), the main
  side pumps whatever comes back.  Every flow object the proxy side intercepted is resumed exactly once per interception,
  none is left intercepted, and a copy has a fresh id.
Stage "proxy": every sequence of <= 3 (thorough 4) queue items over {callback, preempt} x {known id, unknown id, state whose
  set_state raises} + unknown event type + replay, fed to the real ``_pump_callbacks``: each callback/preempt item for a known
  flow calls that flow's resume() exactly once, nothing else is resumed.

Not demanded (statement is silent): what the pump does to a flow after an addon released it inside the hook; position of
the exception (pump_proxy_event may raise -- ``run()`` logs it).
"""
from __future__ import annotations

import contextlib
import gc
import io
import itertools
import pickle
import urllib.parse
import weakref
import xmlrpc.client
from typing import Any, Dict, List, Optional, Tuple

import mitmproxy.ctx
from mitmproxy.http import HTTPFlow, Response

from hippolyzer.lib.base import llsd
from hippolyzer.lib.base.datatypes import UUID
from hippolyzer.lib.proxy.caps import CapData, CapType
from hippolyzer.lib.proxy.http_flow import HippoHTTPFlow
from hippolyzer.lib.proxy.http_proxy import IPCInterceptionAddon
from hippolyzer.lib.proxy.message_logger import BaseMessageLogger

from hmc.core import HarnessError, Part, Run, pmap
from hmc.httpharness import (Env, MemFlowContext, REGION_ADDRS, cap_url, reset_library_globals, restore_uuid4, seed_url,
                             session_uuid)
from hmc.vloop import VLoop, install

LEVEL = "fault_enumeration"

KINDS = ("none", "normal", "seed", "eq", "proxyonly", "wrapper", "asset", "upload", "tempuploader", "login", "bridge")
FLAGS = ("plain", "injected", "browser")
BODIES = ("empty", "valid", "malformed")
BEHAVIOURS = ("ignore", "take", "take_resume", "take_later1", "take_later2", "resume_twice", "take_later_twice", "inject",
              "rewrite", "nostream", "handled", "resume_preempt", "preempt_early")
#: take(), then the owning region is dropped from the session / the owning session is closed (and collected), then resume()
OWNER_LOSS = ("take_drop_region", "take_close_session")
#: preempt() of a flow that had been taken and released again (in the hook / one pump later)
PREEMPT_AFTER_TAKE = ("take_resume_preempt", "take_later_preempt")
FAULTS = ("a1_raise_sw", "a1_raise_prop", "a2_raise_sw", "a2_raise_prop", "sess_sub", "reg_sub", "logger", "asset_repo",
          "resolve", "sess_sub_take", "reg_sub_take")
ASSET_URL = "http://assets.test/mesh"
LOGIN_URL = "https://login.test/cgi-bin/login.cgi"
REWRITTEN = "http://rewritten.test:8080/new/path?y=2"
MIRROR_URL = "http://mirror.test:8081/mirrored/path"
REWRITTEN_PQ = "/rewritten/item?texture_id=00000000-0000-0000-0000-00000000beef&x=1"
WRAPPED_CAPS = {"GetMesh2": ASSET_URL, "GetTexture": "http://assets.test/texture", "ViewerAsset": "http://asset-cdn.test:8080/asset"}
INJ_STATUS, INJ_BODY, INJ_HEADERS = 203, b"injected by addon", {"X-Inj": "1", "Content-Type": "text/x-test"}
MALFORMED = b"<llsd><map><key>broken"


class InjectedFault(Exception):
    pass


# ---------------------------------------------------------------------------------------------------- actors
def _record_take(board: List[Tuple[str, str]], name: str):
    """A take() succeeded: 'took' if the flow was nobody's, 'took-again' if somebody already owns it."""
    acts = [a for _n, a in board]
    owned_now = "took" in acts and "resumed" not in acts
    board.append((name, "took-again" if owned_now else "took"))


class ScriptedAddon:
    """Addon object whose hooks act only on (flow id, event) it was armed for."""

    def __init__(self, name: str, board: List[Tuple[str, str]]):
        self.name = name
        self.board = board          # shared, ordered record of (actor, action) on the flow under test
        self.target: Optional[Tuple[str, str]] = None
        self.beh = "ignore"
        self.raise_after = False
        self.held: Optional[HippoHTTPFlow] = None
        self.took = False
        self.released = False
        self.called = 0
        self.log: List[str] = []
        self.copies: List[Tuple[str, str]] = []
        self.sm = None
        self.observe = False        # two-phase stage only: keeps (strong) references to what the hooks saw
        self.seen_caps: Dict[Tuple[str, str], Any] = {}
        self.seen_plain: Optional[Tuple[Any, Any, Any]] = None     # (cap name, type name, base url) at hook time, no references

    def arm(self, fid: str, event: str, beh: str, raise_after: bool):
        self.target, self.beh, self.raise_after = (fid, event), beh, raise_after

    def handle_http_request(self, session_manager, flow):
        self.sm = session_manager
        return self._hook("request", flow)

    def handle_http_response(self, session_manager, flow):
        self.sm = session_manager
        return self._hook("response", flow)

    def _take(self, flow):
        try:
            flow.take()
        except AssertionError:
            self.log.append("take-refused")
            raise
        self.took, self.held = True, flow
        self.log.append("took")
        _record_take(self.board, self.name)

    def _resume(self, flow, label="resumed"):
        try:
            flow.resume()
        except AssertionError:
            self.log.append(label + "-refused")
            raise
        already = any(a == "resumed" for _n, a in self.board)
        self.released = True
        self.log.append(label)
        self.board.append((self.name, "resumed-again" if already else "resumed"))

    def _hook(self, event: str, flow):
        cd = flow.cap_data
        if self.observe:
            self.seen_caps[(flow.id, event)] = (cd.cap_name, cd.type, cd.base_url, cd.session and cd.session(),
                                                cd.region and cd.region()) if cd is not None else None
        if self.target != (flow.id, event) or flow.metadata.get("mirrored"):
            return None
        self.called += 1
        self.seen_plain = (cd.cap_name, cd.type.name, cd.base_url) if cd is not None else None
        ret = None
        b = self.beh
        try:
            if b in ("take", "take_later1", "take_later2", "take_later_twice", "take_later_preempt") + OWNER_LOSS:
                self._take(flow)
            elif b in ("take_resume", "take_resume_preempt"):
                self._take(flow)
                self._resume(flow)
            elif b == "resume_twice":
                self.held = flow
                self._resume(flow)
                try:
                    self._resume(flow, "resumed-again")
                except AssertionError:
                    pass
            elif b == "inject":
                flow.response = Response.make(INJ_STATUS, INJ_BODY, dict(INJ_HEADERS))
                self.log.append("injected")
                self.board.append((self.name, "injected"))
            elif b == "rewrite":
                flow.request.url = REWRITTEN
                self.log.append("rewrote")
                self.board.append((self.name, "rewrote"))
            elif b in ("copy_replay", "copy_only"):
                # what addon_examples/message_mirror.py does: copy the flow, retarget the copy, ask the proxy to replay it
                dup = flow.copy()
                self.copies.append((flow.id, dup.id))
                self.log.append("copied")
                if b == "copy_replay":
                    dup.metadata["mirrored"] = True
                    dup.request.url = MIRROR_URL
                    dup.metadata.pop("cap_data_ser", None)
                    dup.metadata.pop("cap_data", None)
                    self.sm.flow_context.to_proxy_queue.put_nowait(("replay", None, dup.get_state()))
                    self.log.append("replayed")
            elif b == "rewrite_pq":
                flow.request.path = REWRITTEN_PQ            # same (wrapper) host, new path and query
                self.log.append("rewrote-pq")
                self.board.append((self.name, "rewrote-pq"))
            elif b == "rewrite_nostream":
                flow.request.url = REWRITTEN
                flow.can_stream = False
                self.log.append("rewrote+nostream")
                self.board.append((self.name, "rewrote"))
            elif b == "nostream":
                flow.can_stream = False
                self.log.append("nostream")
                self.board.append((self.name, "nostream"))
            elif b == "handled":
                ret = True
            elif b == "resume_preempt":
                self.held = flow
                self._resume(flow)
            elif b == "preempt_early":
                self.held = flow
                released_before = any(a == "resumed" for _n, a in self.board)
                try:
                    flow.preempt()
                    self.log.append("preempted" if released_before else "preempted-early")
                    self.board.append((self.name, "preempted" if released_before else "preempted-early"))
                except AssertionError:
                    self.log.append("preempt-refused")
        finally:
            if self.raise_after:
                self.log.append("raised")
                raise InjectedFault(f"{self.name} hook fault")
        return ret

    # deferred actions, called by the harness between pumps
    def release(self, label="resumed"):
        try:
            self._resume(self.held, label)
        except AssertionError:
            pass
        except Exception as e:  # noqa: resume() itself failed -- the addon did release the flow
            self.log.append(f"resume-raised:{type(e).__name__}")

    def preempt(self):
        """The documented use: the addon races the server's answer -- it injects its own response and preempts."""
        self.held.response = Response.make(INJ_STATUS, INJ_BODY, dict(INJ_HEADERS))
        try:
            self.held.preempt()
            self.log.append("preempted")
        except AssertionError:
            self.log.append("preempt-refused")


class Subscriber:
    """http_message_handler subscriber (session or region level)."""

    def __init__(self, name: str, board: List[Tuple[str, str]]):
        self.name, self.target, self.mode, self.board = name, None, "none", board
        self.held, self.took, self.released, self.called, self.log = None, False, False, 0, []

    def __call__(self, flow):
        if self.target != flow.id:
            return
        self.called += 1
        if self.mode == "raise":
            self.log.append("raised")
            raise InjectedFault(f"{self.name} subscriber fault")
        if self.mode == "take":
            try:
                flow.take()
            except AssertionError:
                self.log.append("take-refused")
                raise
            self.took, self.held = True, flow
            self.log.append("took")
            _record_take(self.board, self.name)

    def release(self, label="resumed"):
        try:
            self.held.resume()
        except AssertionError:
            self.log.append(label + "-refused")
            return
        already = any(a == "resumed" for _n, a in self.board)
        self.released = True
        self.log.append(label)
        self.board.append((self.name, "resumed-again" if already else "resumed"))


class Waiter:
    """An owner that acquires the flow the other public way: ``wait_for()`` / ``subscribe_async()`` on a session- or
    region-level http_message_handler (default: the waiter takes the flow; ``take=False``: a pure observer)."""

    def __init__(self, name: str, board: List[Tuple[str, str]], handler, loop, api: str, take: Optional[bool], fid: str):
        self.name, self.board, self.loop, self.api, self.take = name, board, loop, api, take
        self.held, self.took, self.released, self.received, self.log = None, False, False, False, []
        pred = (lambda f, _fid=fid: f.id == _fid)
        if api == "wait_for":
            self.fut = handler.wait_for(("*",), predicate=pred, take=take)
        else:
            self.cm = handler.subscribe_async(("*",), predicate=pred, take=take)
            self.get = self.cm.__enter__()

    def after_pump(self):
        """Did the handler dispatch the flow to this waiter? With the default take mode the waiter now owns it."""
        flow = None
        if self.api == "wait_for":
            if self.fut.done() and not self.fut.cancelled() and self.fut.exception() is None:
                flow = self.fut.result()
        else:
            try:
                flow = self.loop.run_coro(self.get())
            except TimeoutError:
                flow = None
            self.cm.__exit__(None, None, None)
        if flow is None:
            return
        self.received, self.held = True, flow
        self.log.append("received")
        if self.take is not False:
            self.took = True
            self.log.append("took")
            _record_take(self.board, self.name)

    def release(self, label="resumed"):
        try:
            self.held.resume()
        except AssertionError:
            self.log.append(label + "-refused")
            return
        already = any(a == "resumed" for _n, a in self.board)
        self.released = True
        self.log.append(label)
        self.board.append((self.name, "resumed-again" if already else "resumed"))


def _stub_message(name: str):
    class _Msg:
        def __init__(self):
            self.name, self.id = name, "earlier-flow"

        def take(self):
            return self
    return _Msg()


def install_dead_waiter(handler, loop, how: str):
    """A wait_for() whose waiter is gone *before* the flow under test arrives: nobody owns flows on its behalf any more."""
    if how == "timedout":
        fut = handler.wait_for(("*",), timeout=0.5)
        loop.advance(1.0)
        if not fut.done() or fut.cancelled() or not isinstance(fut.exception(), Exception):
            raise HarnessError("wait_for(timeout=) did not time out under the virtual clock")
    elif how == "cancelled":
        fut = handler.wait_for(("*",))
        fut.cancel()
        loop.run_ready()
    elif how == "satisfied":
        fut = handler.wait_for(("*",))
        handler.handle(_stub_message("EarlierCap"))
        loop.run_ready()
        if not fut.done():
            raise HarnessError("wait_for() was not satisfied by the earlier message")
    else:
        raise KeyError(how)
    return fut


#: waiters that ended (by timeout / cancellation / an earlier flow) before the flow under test: (level, how)
DEAD_WAITERS = {f"{lvl}_wait_{how}": (lvl, how) for lvl in ("sess", "reg") for how in ("timedout", "cancelled", "satisfied")}

#: (level, api, take) of the waiter kinds; names are usable in a case's fault tuple
WAITERS = {
    "sess_wait": ("session", "wait_for", None), "reg_wait": ("region", "wait_for", None),
    "sess_async": ("session", "subscribe_async", None), "reg_async": ("region", "subscribe_async", None),
    "sess_wait_notake": ("session", "wait_for", False), "reg_wait_notake": ("region", "wait_for", False),
    "sess_async_notake": ("session", "subscribe_async", False), "reg_async_notake": ("region", "subscribe_async", False),
}


class FaultyLogger(BaseMessageLogger):
    def __init__(self):
        self.paused = False
        self.entries: List[Any] = []
        self.fail_for: Optional[str] = None
        self.fired = 0

    def add_log_entry(self, entry):
        self.entries.append(entry)
        return True

    def log_http_response(self, flow):
        if self.fail_for is not None and flow.id == self.fail_for:
            self.fired += 1
            raise InjectedFault("message logger fault")
        return super().log_http_response(flow)


# ---------------------------------------------------------------------------------------------------- world
class World:
    def __init__(self, swallow: bool = True):
        self.board: List[Tuple[str, str]] = []
        self.a1, self.a2 = ScriptedAddon("addon1", self.board), ScriptedAddon("addon2", self.board)
        self.logger = FaultyLogger()
        self.env = Env(n_sessions=2, n_regions=2, message_logger=self.logger, addons=[self.a1, self.a2],
                       swallow_addon_exceptions=swallow)
        env = self.env
        self.asset_id = env.sm.asset_repo.create_asset(b"mesh-bytes")
        self.urls: Dict[Tuple[int, int, str], str] = {}
        self.sess_subs, self.reg_subs = {}, {}
        for si, sess in enumerate(env.sessions):
            ss = self.sess_subs[si] = Subscriber(f"session{si}", self.board)
            sess.http_message_handler.subscribe("*", ss)
            for ri, region in enumerate(sess.regions):
                region.update_caps({
                    "FooCap": cap_url(si, ri, "FooCap"), "EventQueueGet": cap_url(si, ri, "EventQueueGet"),
                    "NewFileAgentInventory": cap_url(si, ri, "NewFileAgentInventory"), "GetMesh2": ASSET_URL,
                })
                from hippolyzer.lib.proxy.caps import CapType as CT
                region.register_cap("NewFileAgentInventoryUploader", cap_url(si, ri, "tmp-uploader"), CT.TEMPORARY)
                self.urls[(si, ri, "proxyonly")] = region.register_proxy_cap("HippoProxyOnly")
                self.urls[(si, ri, "wrapper")] = region.register_wrapper_cap("GetMesh2")
                rs = self.reg_subs[(si, ri)] = Subscriber(f"region{si}.{ri}", self.board)
                region.http_message_handler.subscribe("*", rs)
        self.resolve_fail_for: Optional[str] = None
        self.waiters: List[Waiter] = []
        self.dead_futs: List[Any] = []
        self.asset_fail = False
        self.fired: Dict[str, int] = {}

    # request URL / method / headers / body for a cap kind
    def request_parts(self, kind: str, si: int, ri: int, flag: str, body: str):
        method, headers = "POST", [("Content-Type", "application/llsd+xml")]
        valid = llsd.format_xml({"a": 1})
        if kind == "none":
            url = "http://unrelated.test/some/page?q=1"
        elif kind == "normal":
            url = cap_url(si, ri, "FooCap") + "/sub?x=1"
        elif kind == "seed":
            url, valid = seed_url(si, ri), llsd.format_xml(["FooCap", "EventQueueGet", "HippoProxyOnly", "GetMesh2"])
        elif kind == "eq":
            url, valid = cap_url(si, ri, "EventQueueGet"), llsd.format_xml({"ack": 3, "done": False})
        elif kind == "proxyonly":
            url = self.urls[(si, ri, "proxyonly")] + "/do"
        elif kind == "wrapper":
            url, method = self.urls[(si, ri, "wrapper")] + f"/?mesh_id={UUID(int=0x5151)}", "GET"
        elif kind == "asset":
            url, method = ASSET_URL + f"/?mesh_id={self.asset_id}", "GET"
        elif kind == "upload":
            url = cap_url(si, ri, "NewFileAgentInventory")
        elif kind == "tempuploader":
            url, valid = cap_url(si, ri, "tmp-uploader"), b"\x00\x01binary-asset"
        elif kind == "login":
            url, headers = LOGIN_URL, [("Content-Type", "text/xml")]
            valid = b'<?xml version="1.0"?><methodCall><methodName>login_to_simulator</methodName><params></params></methodCall>'
        elif kind == "bridge":
            url, valid = "http://sim-lsl.test:12046/cap/lsl-bridge", b"<llsd><string>getZOffsets|</string></llsd>"
        else:
            raise KeyError(kind)
        if flag == "injected":
            headers.append(("X-Hippo-Injected", "1"))
        elif flag == "browser":
            headers.append(("User-Agent", "Mozilla/5.0 (hippolyzer browser)"))
        content = {"empty": b"", "valid": valid, "malformed": MALFORMED}[body]
        return url, method, headers, content

    def response_parts(self, kind: str, si: int, ri: int, body: str, status: int):
        headers = {"Content-Type": "application/llsd+xml"}
        valid = llsd.format_xml({"ok": True})
        if kind == "seed":
            valid = llsd.format_xml({"FooCap": cap_url(si, ri, "FooCap") + "-v2", "GetMesh2": ASSET_URL,
                                     "EventQueueGet": cap_url(si, ri, "EventQueueGet")})
        elif kind == "eq":
            valid = llsd.format_xml({"id": 4, "events": [{"message": "ChatterBoxInvitation", "body": {"serial": 1}}]})
        elif kind == "upload":
            valid = llsd.format_xml({"state": "upload", "uploader": cap_url(si, ri, "fresh-uploader")})
        elif kind == "login":
            headers = {"Content-Type": "text/xml"}
            valid = xmlrpc.client.dumps(({
                "session_id": str(session_uuid(7, 1)), "secure_session_id": str(session_uuid(7, 2)),
                "agent_id": str(session_uuid(7, 3)), "circuit_code": 7007, "sim_ip": "10.0.0.9", "sim_port": 13009,
                "region_x": 256000, "region_y": 256000, "seed_capability": "https://sim9.test:12043/cap/seed-login",
            },), methodresponse=True).encode()
        elif kind == "bridge":
            headers = {"Content-Type": "text/plain", "X-SecondLife-Object-Name": "#Firestorm LSL Bridge v2.99",
                       "X-SecondLife-Owner-Key": str(self.env.sessions[si].agent_id)}
            valid = b"<llsd><string>nothing</string></llsd>"
        elif kind in ("wrapper", "asset"):
            headers, valid = {"Content-Type": "application/octet-stream"}, b"\x01\x02mesh"
        content = {"empty": b"", "valid": valid, "malformed": MALFORMED}[body]
        return status, content, headers


def _install_faults(w: World, fid: str, event: str, faults: Tuple[str, ...], si: int, ri: int):
    env = w.env
    for f in faults:
        if f == "sess_sub":
            w.sess_subs[si].target, w.sess_subs[si].mode = fid, "raise"
        elif f == "reg_sub":
            w.reg_subs[(si, ri)].target, w.reg_subs[(si, ri)].mode = fid, "raise"
        elif f == "sess_sub_take":
            w.sess_subs[si].target, w.sess_subs[si].mode = fid, "take"
        elif f == "reg_sub_take":
            w.reg_subs[(si, ri)].target, w.reg_subs[(si, ri)].mode = fid, "take"
        elif f in DEAD_WAITERS:
            lvl, how = DEAD_WAITERS[f]
            sess = env.sessions[si]
            handler = sess.http_message_handler if lvl == "sess" else sess.regions[ri].http_message_handler
            w.dead_futs.append(install_dead_waiter(handler, env.loop, how))
            w.fired[f] = 1
        elif f in WAITERS:
            level, api, take = WAITERS[f]
            sess = env.sessions[si]
            handler = sess.http_message_handler if level == "session" else sess.regions[ri].http_message_handler
            w.waiters.append(Waiter(f, w.board, handler, env.loop, api, take, fid))
        elif f == "logger":
            w.logger.fail_for = fid
        elif f == "asset_repo":
            real = env.sm.asset_repo.try_serve_asset

            def failing(flow, _real=real):
                if flow.id == fid:
                    w.fired["asset_repo"] = w.fired.get("asset_repo", 0) + 1
                    raise InjectedFault("asset repo fault")
                return _real(flow)
            env.sm.asset_repo.try_serve_asset = failing
        elif f == "resolve":
            real_resolve = env.sm.resolve_cap
            state = {"armed": True}

            def failing_resolve(url, _real=real_resolve):
                if state["armed"]:
                    state["armed"] = False   # only the pump under test
                    w.fired["resolve"] = w.fired.get("resolve", 0) + 1
                    raise InjectedFault("resolve_cap fault")
                return _real(url)
            if event == "request":
                env.sm.resolve_cap = failing_resolve


def _lose_owner(w: World, a: ScriptedAddon, beh: str, si: int, ri: int) -> str:
    """Drop the region / close the session the taken flow is attributed to and collect it. Returns what the flow referenced."""
    env = w.env
    cd = a.held.cap_data
    had = "+".join(n for n, ref in (("session", cd.session), ("region", cd.region)) if ref is not None and ref() is not None) or "no refs"
    a.seen_plain = (cd.cap_name, cd.type.name, cd.base_url)        # what must still be in the callback state
    if beh == "take_drop_region":
        region = cd.region() if cd.region is not None else None    # the region the flow is attributed to, if any
        sess = region.session() if region is not None else env.sessions[si]
        if region is None:
            region = sess.regions[ri]
        region.mark_dead()
        sess.regions.remove(region)
        del region, sess
    else:
        sess = cd.session() if cd.session is not None else None
        if sess is None:
            sess = env.sessions[si]
        if sess in env.sessions:            # (a login response's session was created by the pump itself)
            env.sessions.remove(sess)
        env.sm.close_session(sess)
        del sess
    del cd
    gc.collect()
    cd = a.held.cap_data
    target = cd.region if beh == "take_drop_region" else cd.session
    if target is not None and target() is not None:
        raise HarnessError(f"{beh}: the dropped object is still alive, the case would be vacuous")
    return had


def evaluate_pump_case(case) -> Tuple[List[Dict[str, Any]], Any, bool]:
    """One evaluation. case = (event, kind, flag, body, status, faults tuple, beh1, beh2). Returns (violations, outcome, nontrivial)."""
    event, kind, flag, body, status, faults, beh1, beh2 = case
    faults = tuple(faults)
    swallow = not any(f.endswith("_prop") for f in faults)
    w = World(swallow=swallow)
    env = w.env
    si, ri = 1, 1
    viol: List[Dict[str, Any]] = []
    site = f"pump_proxy_event[{event}]:{'+'.join(faults) or 'nofault'}:{beh1}:{beh2}"

    def bad(clause, detail):
        viol.append({"clause": clause, "site": site, "detail": f"{kind}/{flag}/{body}/{status}: {detail}"})

    fid = "flow-under-test"
    url, method, headers, content = w.request_parts(kind, si, ri, flag, body if event == "request" else "valid")
    flow = env.new_flow(url, method, content, headers, fid=fid)
    try:
        if event == "response":
            # phase 1 (request) runs undisturbed so the flow carries the state the real request phase leaves behind
            env.mitm_request(flow)
            env.pump()
            items = env.take_to_proxy()
            cbs = [i for i in items if i[0] == "callback" and i[1] == fid]
            if len(cbs) != 1:
                bad("handback-immediate", f"undisturbed request phase produced {len(cbs)} callbacks")
                return viol, ("phase1-broken",), False
            env.apply_callback(flow, cbs[0])
            if flow.response is None:
                st, rc, rh = w.response_parts(kind, si, ri, body, status)
                env.set_response(flow, st, rc, rh)
            if not env.mitm_response(flow):
                return viol, ("no-response-event", kind, flag), False
        w.a1.arm(fid, event, beh1, "a1_raise_sw" in faults or "a1_raise_prop" in faults)
        w.a2.arm(fid, event, beh2, "a2_raise_sw" in faults or "a2_raise_prop" in faults)
        _install_faults(w, fid, event, faults, si, ri)
        if event == "request":
            env.mitm_request(flow)
        n_cb = 0
        cb_state: List[Any] = []

        def owned() -> bool:
            # the flow is owned from the first successful take() until the (single possible) successful resume()
            return any(a == "took" for _n, a in w.board) and not any(a == "resumed" for _n, a in w.board)

        def account(label: str, expect_delta: Optional[int], other: Optional[str] = None) -> List[Any]:
            """Drain the to-proxy queue; check the callbacks for the flow under test (and for ``other``)."""
            nonlocal n_cb
            items = env.take_to_proxy()
            mine = [i for i in items if i[0] == "callback" and i[1] == fid]
            n_cb += len(mine)
            cb_state.extend(i[2] for i in mine)
            if n_cb > 1 and mine:
                bad("handback-duplicate", f"{label}: {n_cb} callbacks for the flow so far (addon logs {w.a1.log} {w.a2.log})")
            elif n_cb > 1:
                pass
            elif expect_delta is not None and len(mine) != expect_delta:
                if expect_delta == 1 and label == "pump":
                    bad("handback-immediate", f"no actor owns the flow after the pump, {len(mine)} callbacks queued "
                                              f"(addon logs {w.a1.log} {w.a2.log}, pump raised {exc!r})")
                elif expect_delta == 0 and label == "pump":
                    bad("handback-while-owned", f"flow is owned by an actor, yet {len(mine)} callback(s) queued (logs {w.a1.log} {w.a2.log})")
                elif expect_delta == 1:
                    bad("handback-on-release", f"{label}: owner released the flow, {len(mine)} callbacks queued")
                else:
                    bad("handback-duplicate", f"{label}: {len(mine)} unexpected callback(s) for the flow")
            if other is not None:
                theirs = [i for i in items if i[0] == "callback" and i[1] == other]
                if len(theirs) != 1:
                    bad("later-flow-affected", f"{label}: later flow got {len(theirs)} callbacks")
            return items

        q = env.ctx.from_proxy_queue
        got_before = q.n_got
        exc = env.pump()
        if q.n_got != got_before + 1 or not q.empty():
            bad("queue-consumption", f"pump consumed {q.n_got - got_before} events, {q.qsize()} left")
        for wt in w.waiters:
            wt.after_pump()
        was_owned = owned()
        account("pump", 0 if was_owned else 1)
        if any(a == "resumed-again" for _n, a in w.board):
            bad("second-resume-accepted", f"a second resume() of the same flow did not assert (board {w.board})")
        if any(a == "took-again" for _n, a in w.board):
            bad("second-take-accepted", f"a flow that already had an owner was handed to a second one (board {w.board})")
        if any(a == "preempted-early" for _n, a in w.board):
            bad("preempt-before-resume-accepted", f"preempt() on a flow nobody had resumed did not assert (board {w.board})")
        # ---- two later events of another flow; deferred actions in between
        f2 = env.new_flow(cap_url(0, 0, "FooCap") + "/later", "POST", llsd.format_xml({"b": 2}),
                          [("Content-Type", "application/llsd+xml")], fid="later-flow")
        for k in (1, 2):
            if k == 1:
                env.mitm_request(f2)
            else:
                env.set_response(f2, 200, llsd.format_xml({"c": 3}), {"Content-Type": "application/llsd+xml"})
                if not env.mitm_response(f2):
                    bad("later-flow-affected", "later flow's response was not intercepted")
                    break
            env.pump()
            later_items = account(f"later pump {k}", 0, other="later-flow")
            # apply the later flow's callback so its response phase is realistic
            if k == 1:
                st = [i for i in later_items if i[0] == "callback" and i[1] == "later-flow"]
                if len(st) == 1:
                    env.apply_callback(f2, st[0])
            for a, beh in ((w.a1, beh1), (w.a2, beh2)):
                if not a.called:
                    continue
                if (beh, k) in (("take_later1", 1), ("take_later2", 2), ("take_later_twice", 1), ("take_later_preempt", 1)) \
                        and a.took and not a.released:
                    was = owned()
                    a.release()
                    account(f"release by {a.name} after {k} pump(s)", 1 if (a.released and was) else 0)
                elif beh in OWNER_LOSS and k == 1 and a.took and not a.released:
                    had = _lose_owner(w, a, beh, si, ri)
                    was = owned()
                    a.release()
                    items = account(f"release by {a.name} after {beh[5:]} (flow had {had})", 1 if was else 0)
                    mine = [i for i in items if i[0] == "callback" and i[1] == fid]
                    if len(mine) == 1 and a.seen_plain is not None:
                        ser = HTTPFlow.from_state(pickle.loads(pickle.dumps(mine[0][2]))).metadata.get("cap_data_ser")
                        got = (ser.cap_name, ser.type, ser.base_url) if ser is not None else None
                        if got != a.seen_plain:
                            bad("state-after-owner-loss", f"hook saw cap {a.seen_plain!r}, callback state carries {got!r}")
                elif beh == "take_later_twice" and k == 2 and a.released:
                    a.release("resumed-again")
                    account(f"second release by {a.name}", 0)
                    if any(x == "resumed-again" for _n, x in w.board):
                        bad("second-resume-accepted", f"deferred second resume() did not assert (board {w.board})")
                elif (beh, k) in (("resume_preempt", 1), ("take_resume_preempt", 1), ("take_later_preempt", 2)) and a.released:
                    legit = any(x == "resumed" for _n, x in w.board)      # released, hence nobody's: preempt() is allowed
                    a.preempt()
                    pre = [i for i in account(f"preempt by {a.name}", 0) if i[0] == "preempt" and i[1] == fid]
                    if legit and "preempt-refused" in a.log:
                        bad("preempt-refused", f"HippoHTTPFlow.preempt() refused a flow that had been released (board {w.board})")
                    elif "preempted" in a.log and len(pre) != 1:
                        bad("preempt-item", f"HippoHTTPFlow.preempt() queued {len(pre)} preempt items")
                    elif len(pre) == 1:
                        got = HTTPFlow.from_state(pickle.loads(pickle.dumps(pre[0][2])))
                        r = got.response
                        if r is None or r.status_code != INJ_STATUS or r.content != INJ_BODY or r.headers.get("X-Inj") != "1" \
                                or got.metadata.get("response_injected") is not True:
                            bad("preempt-injected-response", f"preempt state must carry the injected {INJ_STATUS} {INJ_BODY!r}, carries "
                                                             f"{r and (r.status_code, r.content[:40])!r} / {got.metadata.get('response_injected')!r}")
            for wt in w.waiters:
                if k == 1 and wt.took and not wt.released:
                    was = owned()
                    wt.release()
                    account(f"release by waiter {wt.name}", 1 if (wt.released and was) else 0)
            for sub in (w.sess_subs[si], w.reg_subs[(si, ri)]):
                if sub.mode == "take" and k == 1 and sub.took and not sub.released:
                    was = owned()
                    sub.release()
                    account(f"release by {sub.name}", 1 if (sub.released and was) else 0)
        # ---- end state
        if owned():
            if n_cb != 0:
                bad("handback-while-owned", f"flow still owned at the end, {n_cb} callbacks were queued")
        elif n_cb != 1:
            bad("handback-immediate" if not was_owned else "handback-on-release", f"{n_cb} callbacks in total for a released flow")
        # ---- what the mitmproxy side receives: modifications made before the hand-back are in the callback state
        if len(cb_state) == 1 and kind != "wrapper":     # (the event manager itself rewrites wrapper requests / answers 307)
            acts = [a for _n, a in w.board]
            upto = acts.index("resumed") if "resumed" in acts else len(acts)
            mods_before = set(acts[:upto]) & {"injected", "rewrote", "nostream"}
            if mods_before:
                got = HTTPFlow.from_state(pickle.loads(pickle.dumps(cb_state[0])))
                if "rewrote" in mods_before and got.request.url != REWRITTEN:
                    bad("transfer-rewritten-url", f"addon rewrote the URL to {REWRITTEN}, callback state carries {got.request.url!r}")
                if "injected" in mods_before:
                    r = got.response
                    if r is None or r.status_code != INJ_STATUS or r.content != INJ_BODY or r.headers.get("X-Inj") != "1" \
                            or r.headers.get("Content-Type") != INJ_HEADERS["Content-Type"]:
                        bad("transfer-injected-response", f"addon injected {INJ_STATUS} {INJ_BODY!r}, callback state carries "
                                                          f"{r and (r.status_code, r.content[:60], dict(r.headers))!r}")
                    if got.metadata.get("response_injected") is not True:
                        bad("transfer-flag-response_injected", f"metadata after injection: {got.metadata.get('response_injected')!r}")
                if "nostream" in mods_before and got.metadata.get("can_stream") is not False:
                    bad("transfer-flag-can_stream", f"addon cleared can_stream, callback state carries {got.metadata.get('can_stream')!r}")
        fired = sorted(k for k, v in w.fired.items() if v) + [a.name for a in (w.a1, w.a2) if "raised" in a.log] + \
            [s.name for s in (w.sess_subs[si], w.reg_subs[(si, ri)]) if s.log] + (["logger"] if w.logger.fired else []) + \
            [wt.name + ":" + "+".join(wt.log) for wt in w.waiters if wt.log]
        acted = [a.log for a in (w.a1, w.a2)]
        outcome = (event, kind, type(exc).__name__ if exc else None, n_cb, was_owned, tuple(fired),
                   tuple(tuple(x) for x in acted), flow.response.status_code if flow.response else None)
        nontrivial = bool(fired) or any(a.log for a in (w.a1, w.a2)) or exc is not None
        return viol, outcome, nontrivial
    finally:
        env.close()


# ---------------------------------------------------------------------------------------------------- wrapper caps
def evaluate_wrapper_case(case) -> Tuple[List[Dict[str, Any]], Any, bool]:
    """case = ("wrapper", cap name, proxied, nostream, who, rewrite kind).

    A request to a ``<cap>ProxyWrapper`` URL is redirected by the event manager to the original cap host: either an injected
    307 (Location) or, when an addon cleared can_stream / once ``_asset_server_proxied`` is set, by rewriting request.url.
    Asserted (the statement's "any rewritten request survives"): whatever form the hand-back takes, the path and query an addon
    hook wrote are what the callback state carries, on the original cap's host."""
    _, cap_name, proxied, nostream, who, rw = case
    w = World()
    env = w.env
    si, ri = 1, 1
    viol: List[Dict[str, Any]] = []
    try:
        region = env.sessions[si].regions[ri]
        if cap_name != "GetMesh2":
            region.update_caps({cap_name: WRAPPED_CAPS[cap_name]})
            wrapper_url = region.register_wrapper_cap(cap_name)
        else:
            wrapper_url = w.urls[(si, ri, "wrapper")]
        orig_host = urllib.parse.urlsplit(WRAPPED_CAPS[cap_name]).netloc
        if proxied:
            # the real way the flag gets set: a request to the bare asset-server URL comes through the proxy
            f0 = env.new_flow(ASSET_URL + f"/?mesh_id={UUID(int=0x6161)}", "GET", fid="asset-direct")
            env.mitm_request(f0)
            env.pump()
            env.take_to_proxy()
            if not env.em._asset_server_proxied:
                raise HarnessError("direct asset request did not switch the event manager to the rewrite strategy")
        fid = "wrapper-flow"
        flow = env.new_flow(wrapper_url + f"/?texture_id={UUID(int=0x5151)}", "GET", fid=fid)
        rewriter, other = (w.a1, w.a2) if who == "addon1" else (w.a2, w.a1)
        if nostream:
            # either the rewriting addon also clears can_stream, or the other addon does
            rewriter.arm(fid, "request", "rewrite_nostream" if rw == "url" else "rewrite_pq", False)
            other.arm(fid, "request", "nostream" if rw == "pq" else "ignore", False)
        else:
            rewriter.arm(fid, "request", "rewrite" if rw == "url" else "rewrite_pq", False)
        env.mitm_request(flow)
        exc = env.pump()
        cbs = [i for i in env.take_to_proxy() if i[0] == "callback" and i[1] == fid]
        site = f"_handle_request[{cap_name}ProxyWrapper]"
        if len(cbs) != 1:
            viol.append({"clause": "handback-immediate", "site": site, "detail": f"{case}: {len(cbs)} callbacks (pump raised {exc!r})"})
            return viol, ("wrapper", "no-callback"), True
        if not rewriter.called:
            raise HarnessError(f"{case}: the rewriting addon's hook never ran")
        got = HTTPFlow.from_state(cbs[0][2])
        want = urllib.parse.urlsplit(REWRITTEN if rw == "url" else "http://x" + REWRITTEN_PQ)
        r = got.response
        if r is not None and r.status_code == 307 and r.headers.get("Location"):
            mode, target = "redirect", r.headers["Location"]
        else:
            mode, target = "rewrite", got.request.url
        t = urllib.parse.urlsplit(target)
        if (t.path, t.query) != (want.path, want.query):
            viol.append({"clause": "transfer-rewritten-url", "site": site + ":" + mode,
                         "detail": f"{case}: addon rewrote the request to path {want.path!r} query {want.query!r}; the handed-back "
                                   f"state {'redirects to' if mode == 'redirect' else 'requests'} {target!r}"})
        elif t.netloc != orig_host:
            viol.append({"clause": "wrapper-redirect-host", "site": site + ":" + mode,
                         "detail": f"{case}: expected the original cap host {orig_host!r}, handed-back state points at {target!r}"})
        if nostream and got.metadata.get("can_stream") is not False:
            viol.append({"clause": "transfer-flag-can_stream", "site": site, "detail": f"{case}: can_stream {got.metadata.get('can_stream')!r}"})
        return viol, ("wrapper", cap_name, proxied, nostream, who, rw, mode, r.status_code if r else None), True
    finally:
        env.close()


# ---------------------------------------------------------------------------------------------------- copy + replay
def evaluate_mirror_case(case) -> Tuple[List[Dict[str, Any]], Any, bool]:
    """case = ("mirror", event, kind, mode): both ends of the queue pair are real.

    An addon hook copies the intercepted flow and (mode copy_replay) puts ("replay", None, copy state) on the to-proxy queue while
    the original is still intercepted.  The real ``_pump_callbacks`` coroutine of the mitmproxy-side addon consumes the
    to-proxy queue (mitmproxy's ``replay.client`` command is stubbed: it runs the replayed flow through the addon's request
    hook, which is what a client replay does); the main side keeps pumping whatever reaches the from-proxy queue.
    Oracle: every flow object the proxy side intercepted is resumed exactly once per interception; a copy has a fresh id."""
    _, event, kind, mode = case
    w = World()
    env = w.env
    loop = env.loop
    si, ri = 1, 1
    viol: List[Dict[str, Any]] = []
    site = f"IPCInterceptionAddon.flows[{mode} in {event} hook]"
    intercepted: Dict[int, int] = {}      # id(flow object) -> times handed to the main process
    resumed: Dict[int, int] = {}
    labels: Dict[int, str] = {}
    keep: List[HTTPFlow] = []

    def watch(f: HTTPFlow, label: str):
        keep.append(f)
        labels[id(f)] = label
        intercepted.setdefault(id(f), 0)
        resumed.setdefault(id(f), 0)
        real = f.resume

        def counted(_k=id(f), _real=real, _f=f):
            if _f.intercepted:
                resumed[_k] += 1
            return _real()
        f.resume = counted

    class Commands:
        @staticmethod
        def call(name, flows):
            assert name == "replay.client", name
            for f in flows:
                f.is_replay = "request"
                f.response = None
                watch(f, "replayed-copy")
                intercepted[id(f)] += 1
                env.mitm.request(f)

    class Master:
        commands = Commands

        @staticmethod
        def shutdown():
            pass

    had_master = hasattr(mitmproxy.ctx, "master")
    old_master = getattr(mitmproxy.ctx, "master", None)
    mitmproxy.ctx.master = Master
    try:
        fid = "mirror-orig"
        url, method, headers, content = w.request_parts(kind, si, ri, "plain", "valid")
        orig = env.new_flow(url, method, content, headers, fid=fid)
        watch(orig, "original")
        task = loop.create_task(env.mitm._pump_callbacks())

        def settle():
            """Let both sides run until both queues are empty."""
            for _ in range(12):
                loop.run_ready()
                loop.advance(0.003)                     # wakes _pump_callbacks, which drains the to-proxy queue
                if env.ctx.from_proxy_queue.empty():
                    if env.ctx.to_proxy_queue.empty():
                        return
                    continue
                env.pump()
            raise HarnessError(f"{case}: the two pumps did not settle")

        if event == "request":
            w.a1.arm(fid, "request", mode, False)
        intercepted[id(orig)] += 1
        env.mitm_request(orig)
        settle()
        if event == "response":
            if orig.response is None:
                st, rc, rh = w.response_parts(kind, si, ri, "valid", 200)
                env.set_response(orig, st, rc, rh)
            w.a1.arm(fid, "response", mode, False)
            before = env.ctx.from_proxy_queue.n_put
            env.mitm.responseheaders(orig)
            env.mitm.response(orig)
            if env.ctx.from_proxy_queue.n_put > before:
                intercepted[id(orig)] += 1
            settle()
        env.ctx.shutdown_signal.set()
        loop.advance(0.01)
        if not task.done():
            task.cancel()
            loop.run_ready()
            viol.append({"clause": "proxy-pump-stuck", "site": site, "detail": f"{case}: _pump_callbacks did not stop"})
        elif task.exception() is not None:
            viol.append({"clause": "proxy-pump-died", "site": site, "detail": f"{case}: {task.exception()!r}"})
        for o, d in w.a1.copies:
            if o == d:
                viol.append({"clause": "copy-shares-id", "site": "HippoHTTPFlow.copy",
                             "detail": f"{case}: copy() of flow {o!r} kept the id of the flow that is still in flight"})
        for k, n in intercepted.items():
            if resumed[k] != n:
                viol.append({"clause": "proxy-resume-once", "site": site,
                             "detail": f"{case}: the {labels[k]} flow was intercepted {n}x and resumed {resumed[k]}x "
                                       f"(all flows: {[(labels[x], intercepted[x], resumed[x]) for x in intercepted]})"})
            f = next(x for x in keep if id(x) == k)
            if f.intercepted:
                viol.append({"clause": "proxy-flow-left-intercepted", "site": site,
                             "detail": f"{case}: the {labels[k]} flow is still intercepted when both queues are empty"})
        outcome = ("mirror", event, kind, mode, tuple(w.a1.log), tuple(sorted((labels[k], intercepted[k], resumed[k]) for k in intercepted)))
        return viol, outcome, bool(w.a1.copies)
    finally:
        if had_master:
            mitmproxy.ctx.master = old_master
        else:
            try:
                del mitmproxy.ctx.master
            except AttributeError:
                pass
        env.close()


# ---------------------------------------------------------------------------------------------------- state transfer
MODS = ("rewrite", "inject", "nostream")


def evaluate_state_case(case) -> Tuple[List[Dict[str, Any]], Any, bool]:
    """case = ("direct"|"pickle", kind, si, ri, flag, mods tuple)."""
    how, kind, si, ri, flag, mods = case
    w = World()
    env = w.env
    viol: List[Dict[str, Any]] = []
    try:
        sm, sess = env.sm, env.sessions[si]
        region = sess.regions[ri]
        url, method, headers, content = w.request_parts(kind, si, ri, flag, "valid")
        mflow = env.new_flow(url, method, content, headers, fid="st-flow")
        env.mitm_request(mflow)                      # sets from_browser / request_injected like the real hook
        _ev, state = env.ctx.from_proxy_queue.get(False)
        flow = HippoHTTPFlow.from_state(state, sm)
        if kind == "login":
            flow.cap_data = CapData("LoginRequest", session=weakref.ref(sess))
        elif kind == "bridge":
            flow.cap_data = CapData("FirestormBridge", region=weakref.ref(region), session=weakref.ref(sess))
        else:
            flow.cap_data = sm.resolve_cap(flow.request.url)
        if "rewrite" in mods:
            flow.request.url = REWRITTEN
        if "inject" in mods:
            flow.response = Response.make(INJ_STATUS, INJ_BODY, dict(INJ_HEADERS))
        if "nostream" in mods:
            flow.can_stream = False
        cd = flow.cap_data
        before = {
            "cap-name": cd.cap_name, "cap-type": cd.type, "cap-base-url": cd.base_url,
            "session-identity": cd.session and cd.session(), "region-identity": cd.region and cd.region(),
            "flag-request_injected": flow.request_injected, "flag-response_injected": flow.response_injected,
            "flag-can_stream": flow.can_stream, "flag-from_browser": flow.from_browser, "url": flow.request.url,
            "method": flow.request.method, "request-body": flow.request.content,
            "response": (flow.response.status_code, tuple(flow.response.headers.fields), flow.response.content)
            if flow.response else None,
        }
        # independent expectations for what the harness itself set
        exp = {"flag-request_injected": flag == "injected", "flag-from_browser": flag == "browser",
               "flag-can_stream": "nostream" not in mods, "flag-response_injected": "inject" in mods,
               "url": REWRITTEN if "rewrite" in mods else url}
        if kind not in ("none", "asset", "login"):
            exp["session-identity"], exp["region-identity"] = sess, region
        elif kind == "login":
            exp["session-identity"], exp["region-identity"] = sess, None
        else:
            exp["session-identity"], exp["region-identity"] = None, None
        for k, v in exp.items():
            if not ((before[k] is v) if k.endswith("identity") else (before[k] == v)):
                viol.append({"clause": "state-before-transfer", "site": f"HippoHTTPFlow[{k}]",
                             "detail": f"{kind}/s{si}r{ri}/{flag}/{mods}: expected {v!r} before the transfer, flow has {before[k]!r}"})
        st = flow.get_state()
        if how == "pickle":
            st = pickle.loads(pickle.dumps(st))
        flow2 = HippoHTTPFlow.from_state(st, sm)
        cd2 = flow2.cap_data
        if not isinstance(cd2, CapData):
            viol.append({"clause": "state-cap-data-missing", "site": "HippoHTTPFlow.get_state/from_state" + ("[pickled]" if how == "pickle" else ""),
                         "detail": f"{kind}/s{si}r{ri}/{flag}/{mods}: cap data {cd!r} became {cd2!r}"})
            cd2 = CapData(None, None, None, None, None)     # compare field by field below
        after = {
            "cap-name": cd2.cap_name, "cap-type": cd2.type, "cap-base-url": cd2.base_url,
            "session-identity": cd2.session and cd2.session(), "region-identity": cd2.region and cd2.region(),
            "flag-request_injected": flow2.request_injected, "flag-response_injected": flow2.response_injected,
            "flag-can_stream": flow2.can_stream, "flag-from_browser": flow2.from_browser, "url": flow2.request.url,
            "method": flow2.request.method, "request-body": flow2.request.content,
            "response": (flow2.response.status_code, tuple(flow2.response.headers.fields), flow2.response.content)
            if flow2.response else None,
        }
        for k in before:
            same = (before[k] is after[k]) if k.endswith("identity") else (before[k] == after[k])
            if not same:
                viol.append({"clause": "state-" + k, "site": "HippoHTTPFlow.get_state/from_state" + ("[pickled]" if how == "pickle" else ""),
                             "detail": f"{kind}/s{si}r{ri}/{flag}/{mods}: {before[k]!r} became {after[k]!r}"})
        # the original flow must still be usable after get_state (cap_data put back)
        if flow.cap_data is not cd:
            viol.append({"clause": "state-cap-restored", "site": "HippoHTTPFlow.get_state",
                         "detail": f"{kind}: get_state did not put cap_data back ({flow.cap_data!r})"})
        outcome = ("state", kind, si, ri, flag, tuple(mods), cd.cap_name, cd.type.name, bool(before["session-identity"]),
                   bool(before["region-identity"]))
        return viol, outcome, bool(cd.cap_name) or bool(mods)
    finally:
        env.close()


def expected_routing(w: World, kind: str, si: int, ri: int, flag: str, leg: str):
    """(cap name, type, base url, session id, region addr) the callback state must carry -- from the harness' own cap table.
    Returns None where nothing is asserted."""
    sid, addr = str(session_uuid(si, 1)), str(REGION_ADDRS[ri])
    table = {
        "normal": ("FooCap", "NORMAL", cap_url(si, ri, "FooCap"), sid, addr),
        "seed": ("Seed", "NORMAL", seed_url(si, ri), sid, addr),
        "eq": ("EventQueueGet", "NORMAL", cap_url(si, ri, "EventQueueGet"), sid, addr),
        "upload": ("NewFileAgentInventory", "NORMAL", cap_url(si, ri, "NewFileAgentInventory"), sid, addr),
        "tempuploader": ("NewFileAgentInventoryUploader", "TEMPORARY", cap_url(si, ri, "tmp-uploader"), sid, addr),
        "proxyonly": ("HippoProxyOnly", "PROXY_ONLY", w.urls[(si, ri, "proxyonly")], sid, addr),
        "wrapper": ("GetMesh2ProxyWrapper", "WRAPPER", w.urls[(si, ri, "wrapper")], sid, addr),
        # asset-server caps are deliberately not tied to a session / region (documented in Session.resolve_cap)
        "asset": ("GetMesh2", "NORMAL", ASSET_URL, None, None),
        "none": (None, None, None, None, None),
    }
    if kind in table:
        return table[kind]
    if flag != "plain":
        return None      # login sniffing / bridge detection are defined for plain viewer traffic only
    if kind == "login":
        return ("LoginRequest", "NORMAL", None, None if leg == "request" else str(session_uuid(7, 1)), None)
    if kind == "bridge":
        return (None, None, None, None, None) if leg == "request" else \
            ("FirestormBridge", "NORMAL", None, sid, str(REGION_ADDRS[0]))
    return None


def check_routing(viol, cb_item, exp, what: str, leg: str):
    if exp is None:
        return
    try:
        ser = HTTPFlow.from_state(pickle.loads(pickle.dumps(cb_item[2]))).metadata.get("cap_data_ser")
        fields = tuple(getattr(ser, n, "<missing>") for n in ("cap_name", "type", "base_url", "session_id", "region_addr")) \
            if ser is not None else None
    except Exception as e:  # noqa: an unreadable state is a finding, not a harness fault
        ser, fields = "<unreadable>", repr(e)
    if exp[0] is None:
        got = fields
        ok = ser is None or (fields is not None and fields[0] is None)
    else:
        got = fields
        ok = got == exp
    if not ok:
        viol.append({"clause": f"routing-metadata-{leg}-leg", "site": "callback state cap_data_ser",
                     "detail": f"{what}: the flow handed back after the {leg} leg must carry {exp!r}, it carries {got!r}"})


def evaluate_twophase_case(case) -> Tuple[List[Dict[str, Any]], Any, bool]:
    """case = ("twophase", kind, si, ri, flag): request pump then response pump; addon1 only observes."""
    _, kind, si, ri, flag = case[:5]
    stale = len(case) > 5 and case[5] == "stale"
    owner_gone = case[5] if len(case) > 5 and case[5] in ("session-closed", "region-dropped") else None
    w = World()
    env = w.env
    viol: List[Dict[str, Any]] = []
    try:
        url, method, headers, content = w.request_parts(kind, si, ri, flag, "valid")
        w.a1.observe = True
        flow = env.new_flow(url, method, content, headers, fid="tp-flow")
        if stale:
            # a replayed flow: its state still carries the attribution of an earlier hop, which is no longer what the URL
            # resolves to (other cap / other session+region; for the temporary cap: consumed by its first use -> nothing)
            from hippolyzer.lib.proxy.caps import SerializedCapData
            flow.metadata["cap_data_ser"] = SerializedCapData(
                cap_name="StaleCapFromEarlierHop", region_addr=str(REGION_ADDRS[0]), session_id=str(session_uuid(0, 1)),
                base_url="http://stale.test/cap/old", type="TEMPORARY")
            flow.is_replay = "request"
            if kind == "tempuploader":
                env.sm.resolve_cap(url)          # first use consumes the temporary cap
                kind = "none"
        env.mitm_request(flow)
        env.pump()
        cbs = [i for i in env.take_to_proxy() if i[0] == "callback"]
        if len(cbs) != 1:
            return [{"clause": "handback-immediate", "site": "pump_proxy_event[request]:twophase",
                     "detail": f"{kind}: {len(cbs)} callbacks"}], ("twophase-broken",), False
        what = f"{kind}/s{si}r{ri}/{flag}" + ("/stale incoming cap_data_ser" if stale else "")
        check_routing(viol, cbs[0], expected_routing(w, kind, si, ri, flag, "request"), what, "request")
        env.apply_callback(flow, cbs[0])
        if flow.response is None:
            st, rc, rh = w.response_parts(kind, si, ri, "valid", 200)
            env.set_response(flow, st, rc, rh)
        if owner_gone is not None:
            # the owner goes away while the request is in flight (logout / region teardown during a long poll): the response event
            # must still be handed back exactly once; what it is attributed to is not asserted
            sess = env.sessions[si]
            if owner_gone == "region-dropped":
                region = sess.regions[ri]
                region.mark_dead()
                sess.regions.remove(region)
                del region
            else:
                env.sessions.remove(sess)
                env.sm.close_session(sess)
            del sess
            gc.collect()
            if not env.mitm_response(flow):
                return viol, ("twophase", kind, "no-response-event"), bool(viol)
            exc = None
            try:
                env.pump()
            except Exception as e:  # the clause below reports it
                exc = e
            cbs2 = [i for i in env.take_to_proxy() if i[0] == "callback"]
            if len(cbs2) != 1 or exc is not None:
                viol.append({"clause": "handback-immediate", "site": f"pump_proxy_event[response]:twophase:{owner_gone}",
                             "detail": f"{what}: owner {owner_gone} between the request and the response event: {len(cbs2)} callbacks, pump raised {exc!r}"})
            return viol, ("twophase", kind, owner_gone, len(cbs2)), True
        if not env.mitm_response(flow):
            return viol, ("twophase", kind, "no-response-event"), bool(viol)
        env.pump()
        cbs2 = [i for i in env.take_to_proxy() if i[0] == "callback"]
        if len(cbs2) != 1:
            viol.append({"clause": "handback-immediate", "site": "pump_proxy_event[response]:twophase",
                         "detail": f"{what}: {len(cbs2)} callbacks"})
        else:
            check_routing(viol, cbs2[0], expected_routing(w, kind, si, ri, flag, "response"), what, "response")
        req_seen = w.a1.seen_caps.get(("tp-flow", "request"))
        resp_seen = w.a1.seen_caps.get(("tp-flow", "response"))
        if req_seen is not None and resp_seen is not None and kind not in ("login", "bridge"):
            names = ("cap-name", "cap-type", "cap-base-url", "session-identity", "region-identity")
            for n, a, b in zip(names, req_seen, resp_seen):
                same = (a is b) if n.endswith("identity") else (a == b)
                if not same:
                    viol.append({"clause": "state-" + n, "site": "request-phase -> response-phase",
                                 "detail": f"{kind}/s{si}r{ri}/{flag}: request hook saw {a!r}, response hook saw {b!r}"})
        if req_seen is not None and kind in ("normal", "seed", "eq", "proxyonly", "wrapper", "upload", "tempuploader"):
            if req_seen[3] is not env.sessions[si] or req_seen[4] is not env.sessions[si].regions[ri]:
                viol.append({"clause": "state-before-transfer", "site": "SessionManager.resolve_cap",
                             "detail": f"{kind}/s{si}r{ri}: resolved to {req_seen[3]!r} / {req_seen[4]!r}"})
        return viol, ("twophase", kind, si, ri, flag, req_seen is not None, resp_seen is not None,
                      resp_seen[0] if resp_seen else None), True
    finally:
        env.close()


# ---------------------------------------------------------------------------------------------------- proxy side
PROXY_ITEMS = ("cb_known", "cb_bad", "cb_unknown", "pre_known", "pre_bad", "pre_unknown", "bogus", "replay")


class _StubMaster:
    class commands:  # noqa
        calls: List[Any] = []

        @classmethod
        def call(cls, *a):
            cls.calls.append(a)

    stopped = 0

    @classmethod
    def shutdown(cls):
        cls.stopped += 1


def evaluate_proxy_case(case) -> Tuple[List[Dict[str, Any]], Any, bool]:
    """case = ("proxy", items tuple): feed the items to the real _pump_callbacks, count resume() per flow."""
    _, items = case
    reset_library_globals()
    loop = VLoop()
    install(loop)
    ctx = MemFlowContext()
    addon = IPCInterceptionAddon(ctx)
    viol: List[Dict[str, Any]] = []
    had_master = hasattr(mitmproxy.ctx, "master")
    old_master = getattr(mitmproxy.ctx, "master", None)
    _StubMaster.commands.calls, _StubMaster.stopped = [], 0
    mitmproxy.ctx.master = _StubMaster
    try:
        from mitmproxy.test import tflow
        flows: Dict[str, HTTPFlow] = {}
        counts: Dict[str, int] = {}
        for fid in ("A", "B"):
            f = tflow.tflow()
            f.id = fid
            addon.request(f)                     # intercepts, registers in addon.flows, queues the request event
            counts[fid] = 0
            real_resume = f.resume

            def counted(_fid=fid, _real=real_resume):
                counts[_fid] += 1
                return _real()
            f.resume = counted
            flows[fid] = f
        good = {st["id"]: st for (_e, st) in ctx.from_proxy_queue.drain()}
        expected = {"A": 0, "B": 0}
        for it in items:
            state = pickle.loads(pickle.dumps(good["A"]))
            if it in ("cb_bad", "pre_bad"):
                state["type"] = "not-http"          # Flow.set_state asserts on the type -> raises
            if it == "cb_known" or it == "cb_bad":
                ctx.to_proxy_queue.put(("callback", "A", state))
                expected["A"] += 1
            elif it == "cb_unknown":
                state["id"] = "zz"
                ctx.to_proxy_queue.put(("callback", "zz", state))
            elif it in ("pre_known", "pre_bad"):
                ctx.to_proxy_queue.put(("preempt", "A", state))
                expected["A"] += 1
            elif it == "pre_unknown":
                state["id"] = "zz"
                ctx.to_proxy_queue.put(("preempt", "zz", state))
            elif it == "bogus":
                ctx.to_proxy_queue.put(("bogus", "A", state))
            elif it == "replay":
                ctx.to_proxy_queue.put(("replay", "A", state))
        task = loop.create_task(addon._pump_callbacks())
        loop.run_ready()
        loop.advance(0.01)
        alive_after_items = not task.done()
        ctx.shutdown_signal.set()
        loop.advance(0.01)
        if not task.done():
            task.cancel()
            loop.run_ready()
            viol.append({"clause": "proxy-pump-stuck", "site": "IPCInterceptionAddon._pump_callbacks",
                         "detail": f"{items}: did not stop after the shutdown signal"})
        elif task.exception() is not None:
            viol.append({"clause": "proxy-pump-died", "site": "IPCInterceptionAddon._pump_callbacks",
                         "detail": f"{items}: {task.exception()!r}"})
        if not alive_after_items:
            viol.append({"clause": "proxy-pump-died", "site": "IPCInterceptionAddon._pump_callbacks",
                         "detail": f"{items}: pump ended before shutdown was signalled"})
        if not ctx.to_proxy_queue.empty():
            viol.append({"clause": "proxy-pump-stuck", "site": "IPCInterceptionAddon._pump_callbacks",
                         "detail": f"{items}: {ctx.to_proxy_queue.qsize()} items left unprocessed"})
        for fid in ("A", "B"):
            if counts[fid] != expected[fid]:
                kinds = "+".join(sorted({i for i in items if i.endswith("known") or i.endswith("bad")}))
                viol.append({"clause": "proxy-resume-once", "site": f"IPCInterceptionAddon._pump_callbacks[{kinds or 'other'}]",
                             "detail": f"{items}: flow {fid} resume() called {counts[fid]}x, expected {expected[fid]}x"})
        return viol, ("proxy", tuple(items), counts["A"], counts["B"], len(_StubMaster.commands.calls), _StubMaster.stopped), \
            expected["A"] > 0
    finally:
        if had_master:
            mitmproxy.ctx.master = old_master
        else:
            try:
                del mitmproxy.ctx.master
            except AttributeError:
                pass
        restore_uuid4()


# ---------------------------------------------------------------------------------------------------- enumeration
def all_flows():
    for kind in KINDS:
        for flag in FLAGS:
            for body in BODIES:
                yield ("request", kind, flag, body, 200)
            for body in BODIES:
                yield ("response", kind, flag, body, 200)
            yield ("response", kind, flag, "valid", 502)


def core_flows():
    for kind in KINDS:
        yield ("request", kind, "plain", "valid", 200)
        yield ("response", kind, "plain", "valid", 200)
        yield ("response", kind, "plain", "valid", 502)


def cases_for(tier: str):
    cases: List[tuple] = []
    single = [()] + [(f,) for f in FAULTS]
    pairs = list(itertools.combinations(FAULTS, 2))
    flows, core = list(all_flows()), list(core_flows())
    # stage 1: all flows x all single faults x all behaviours (addon2 idle)
    for fl in flows:
        for fa in single:
            for b in BEHAVIOURS:
                cases.append(("pump",) + fl + (fa, b, "ignore"))
    wide = flows if tier == "thorough" else core
    # stage 1b: the owner of a taken flow's cap data disappears before the release
    for b in OWNER_LOSS:
        for fl in flows:
            cases.append(("pump",) + fl + ((), b, "ignore"))
        for fl in core:
            for fa in single[1:]:
                cases.append(("pump",) + fl + (fa, b, "ignore"))
    # stage 1d: preempt() after the flow had been taken and released
    for b in PREEMPT_AFTER_TAKE:
        for fl in flows:
            cases.append(("pump",) + fl + ((), b, "ignore"))
        for fl in core:
            for fa in single[1:]:
                cases.append(("pump",) + fl + (fa, b, "ignore"))
    # stage 1c: owners / observers that get the flow through wait_for() / subscribe_async() on the session / region handler
    for fl in flows:
        if fl[0] != "response":
            continue
        for wt in WAITERS:
            for b in ("ignore", "take_later1", "handled"):
                cases.append(("pump",) + fl + ((wt,), b, "ignore"))
    # stage 1f: a session-level and a region-level waiter on the same flow: only one of them can own it
    for fl in core:
        if fl[0] != "response":
            continue
        for pair in (("sess_wait", "reg_wait"), ("sess_async", "reg_async"), ("sess_wait", "reg_async"), ("sess_wait_notake", "reg_wait")):
            cases.append(("pump",) + fl + (pair, "ignore", "ignore"))
    # stage 1e: waiters that timed out / were cancelled / were satisfied earlier must not own (or swallow) later flows
    for fl in flows:
        if fl[0] != "response":
            continue
        for dw in DEAD_WAITERS:
            cases.append(("pump",) + fl + ((dw,), "ignore", "ignore"))
    # stage 2a: pairs of faults x {ignore, deferred release}
    for fl in wide:
        for fa in pairs:
            for b in ("ignore", "take_later1"):
                cases.append(("pump",) + fl + (fa, b, "ignore"))
    # stage 2b: pairs of behaviours (addon1 x addon2)
    for fl in wide:
        for b1 in BEHAVIOURS:
            for b2 in BEHAVIOURS[1:]:
                cases.append(("pump",) + fl + ((), b1, b2))
    if tier == "thorough":
        for fl in core:
            for fa in single[1:]:
                for b1 in BEHAVIOURS:
                    for b2 in BEHAVIOURS[1:]:
                        cases.append(("pump",) + fl + (fa, b1, b2))
    # state transfer
    for how in ("direct", "pickle"):
        for kind in KINDS:
            for si in (0, 1):
                for ri in (0, 1):
                    for flag in FLAGS:
                        for n in range(len(MODS) + 1):
                            for mods in itertools.combinations(MODS, n):
                                cases.append(("state", how, kind, si, ri, flag, mods))
    for kind in KINDS:
        for si in (0, 1):
            for ri in (0, 1):
                for flag in FLAGS:
                    cases.append(("twophase", kind, si, ri, flag))
    for kind in ("none", "normal", "eq", "proxyonly", "tempuploader"):
        for flag in FLAGS:
            cases.append(("twophase", kind, 1, 1, flag, "stale"))
    for kind in KINDS:
        if kind in ("login", "bridge", "none"):
            continue
        for si, ri in ((0, 0), (1, 1)):
            for gone in ("session-closed", "region-dropped"):
                cases.append(("twophase", kind, si, ri, "plain" if "plain" in FLAGS else FLAGS[0], gone))
    # copy + replay with the real proxy-side pump in the loop
    for ev_ in ("request", "response"):
        for kind in KINDS:
            for mode in ("copy_replay", "copy_only"):
                cases.append(("mirror", ev_, kind, mode))
    # wrapper caps: an addon's rewrite must survive the event manager's own redirect
    for cap_name in WRAPPED_CAPS:
        for proxied in (False, True):
            for nostream in (False, True):
                for who in ("addon1", "addon2"):
                    for rw in ("pq", "url"):
                        cases.append(("wrapper", cap_name, proxied, nostream, who, rw))
    # proxy side
    maxlen = 4 if tier == "thorough" else 3
    for n in range(1, maxlen + 1):
        for seq in itertools.product(PROXY_ITEMS, repeat=n):
            cases.append(("proxy", seq))
    return cases


def evaluate(case) -> Tuple[List[Dict[str, Any]], Any, bool]:
    with contextlib.redirect_stdout(io.StringIO()):     # _handle_request print()s when it serves an asset
        return _evaluate(case)


def _evaluate(case) -> Tuple[List[Dict[str, Any]], Any, bool]:
    stage = case[0]
    if stage == "pump":
        return evaluate_pump_case(case[1:])
    if stage == "state":
        return evaluate_state_case(case[1:])
    if stage == "twophase":
        return evaluate_twophase_case(case)
    if stage == "proxy":
        return evaluate_proxy_case(case)
    if stage == "wrapper":
        return evaluate_wrapper_case(case)
    if stage == "mirror":
        return evaluate_mirror_case(case)
    raise ValueError(stage)


def _worker(chunk):
    part = Part()
    for case in chunk:
        try:
            viol, outcome, nontrivial = evaluate(case)
        except HarnessError:
            raise
        except Exception as e:  # noqa: the code under test handed the oracle something it cannot even decode
            import traceback
            where = traceback.extract_tb(e.__traceback__)[-1]
            viol = [{"clause": "state-unreadable", "site": f"{case[0]}:{type(e).__name__}",
                     "detail": f"{case}: evaluating the case raised {e!r} at {where.name}:{where.lineno}"}]
            outcome, nontrivial = ("raised", case[0], type(e).__name__), True
        part.count("evaluations")
        part.count("evaluations_" + case[0])
        for v in viol:
            part.violation(v["clause"], v["site"], {"case": case}, v["detail"])
        part.outcome(outcome)
        if nontrivial:
            part.mark_nontrivial(case)
    return part.dump()


def run(run: Run):
    run.rule = ("exhaustive product: flows x single faults x addon behaviours, all fault pairs, all behaviour pairs (see module "
                "docstring) through the real pump_proxy_event; every get_state/from_state transfer over kinds x 2 sessions x 2 "
                "regions x flags x modification subsets; every item sequence up to the bound through the real _pump_callbacks. "
                "non-trivial = cases in which a fault point actually fired, an addon/subscriber actually acted on the flow, the "
                "pump raised, a transfer carried cap data or a modification, or a proxy-side item addressed a known flow")
    run.assumptions += [
        "an addon that takes a flow and never resumes it keeps it (the statement hands the flow back 'when that addon releases it')",
        "faults are Python exceptions raised at the listed points; a failure of pickling / of the OS queue itself is outside the seam",
        "flow states are well-formed (produced by mitmproxy's own get_state); cap_data_ser is what the request phase produced",
        "queues are in-memory with pickle round trip; mitmproxy side = real SLMITMAddon hooks / real _pump_callbacks without a master",
    ]
    cases = cases_for(run.tier)
    n = max(1, min(400, len(cases) // (run.jobs * 6) or 1))
    chunks = [cases[i:i + n] for i in range(0, len(cases), n)]
    for d in pmap(_worker, chunks, run.jobs, chunksize=1):
        run.merge(d)
    stages: Dict[str, int] = {}
    for c in cases:
        stages[c[0]] = stages.get(c[0], 0) + 1
    run.coverage_extra["cases_per_stage"] = stages
    run.coverage_extra["fault_points"] = list(FAULTS) + ["malformed body (LLSD / XML-RPC parse)"]
    run.coverage_extra["behaviours"] = list(BEHAVIOURS)
    for c in (cases[0], cases[len(cases) // 3], cases[-1]):
        run.sample({"case": c})
    import time
    run.coverage_extra["wall"] = round(time.time() - run.t0, 1)


def replay(witness):
    case = witness["case"]

    def tup(x):
        return tuple(tup(e) for e in x) if isinstance(x, list) else x
    viol, _o, _n = evaluate(tup(case))
    return viol

#!/venv/bin/python
"""Rewrites the block between <!-- FINDINGS:BEGIN --> and <!-- FINDINGS:END --> in DESIGN.md from known_findings.json."""
import json, os, re
HERE = os.path.dirname(os.path.dirname(os.path.abspath(__file__)))
d = json.load(open(os.path.join(HERE, "known_findings.json")))["findings"]
out = ["<!-- FINDINGS:BEGIN -->", "#### Repaired in /repo (`fix:` commits; the check that found each one is green on the repaired tree and reports it again if it returns)",
       "| property | commit | clause @ site | what failed |", "|---|---|---|---|"]
for e in d:
    if e["status"] == "fixed":
        what = re.sub(r"^fixed: property=\S+ \S+ ", "", e["text"])
        out.append(f"| {e['property']} | {e.get('commit','')} | `{e['clause']}` @ `{e['site'].replace('|', chr(92)+'|')}` | {what} |")
out += ["", "#### Open known findings (genuine, not repaired; printed as `KNOWN-FINDING:` and matched on (property, clause, site regex[, witness regex]))",
        "| property | clause @ site | what fails and why it is not repaired |", "|---|---|---|"]
for e in d:
    if e["status"] == "open":
        out.append(f"| {e['property']} | `{e['clause']}` @ `{e['site'].replace('|', chr(92)+'|')}` | {e['text']} |")
out.append("<!-- FINDINGS:END -->")
p = os.path.join(HERE, "DESIGN.md")
s = open(p).read()
block = "\n".join(out)
if "<!-- FINDINGS:BEGIN -->" in s:
    s = re.sub(r"<!-- FINDINGS:BEGIN -->.*<!-- FINDINGS:END -->", lambda m: block, s, flags=re.S)
else:
    s += "\n" + block + "\n"
open(p, "w").write(s)
print(f"rendered {sum(e['status']=='fixed' for e in d)} fixed, {sum(e['status']=='open' for e in d)} open")

#!/bin/bash
# tools/all_quick.sh [jobs]: every quick check against /repo's working tree, one line each; non-zero exit if any is not rc=0.
cd /verif; bad=0
for i in $(seq -w 1 20); do
  out=$(./check C$i --tier quick --jobs ${1:-12} 2>&1); rc=$?
  echo "C$i rc=$rc $(echo "$out" | grep -c '^VIOLATION') violations $(echo "$out" | grep -c '^KNOWN-FINDING') known :: $(echo "$out" | tail -1 | cut -c1-140)"
  [ $rc -ne 0 ] && bad=1
done
exit $bad

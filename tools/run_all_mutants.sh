#!/bin/bash
# tools/run_all_mutants.sh [pattern] : runs every mutants/<cNN>_*.diff (hand-written by the harness builders) against its property's quick
# check in a scratch worktree (tools/mutant_run.sh, repo tests skipped here -- the builders ran them) and writes / updates mutants/RESULTS.md
# (with a pattern only the matching rows are replaced).
cd /verif
OUT=mutants/RESULTS.md
TMP=$(mktemp)
[ -f "$OUT" ] && grep '^| c' "$OUT" > "$TMP.old" || : > "$TMP.old"
for f in mutants/${1:-c}*.diff; do
  b=$(basename "$f" .diff); p=$(echo "$b" | cut -c1-3 | tr a-z A-Z)
  R=$(SKIP_TESTS=1 TAIL=60 VERIF_JOBS=${VERIF_JOBS:-10} tools/mutant_run.sh "$f" "$p" quick 2>&1)
  RC=$(echo "$R" | grep 'check exit' | sed 's/check exit: //')
  V=$(echo "$R" | grep -m1 'clause=' | sed 's/^ *//; s/detail=.*//' | cut -c1-110)
  [ -z "$RC" ] && RC="patch does not apply (tree moved on)"
  grep -v "^| $b |" "$TMP.old" > "$TMP.new"; mv "$TMP.new" "$TMP.old"
  echo "| $b | $p | $RC | $V |" >> "$TMP"
  echo "$b -> $RC"
done
cat "$TMP.old" >> "$TMP"
{ echo "# Hand-written mutants (by the harness builders) against the quick tier"; echo; echo "exit 1 = detected (VIOLATION), 0 = not detected, 2 = harness error. The undetected ones are triaged in DESIGN.md §10.5."; echo;
  echo "| mutant | property | check exit | first violation |"; echo "|---|---|---|---|"; sort "$TMP"; } > "$OUT"
rm -f "$TMP" "$TMP.old"

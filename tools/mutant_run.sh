#!/bin/bash
# tools/mutant_run.sh <patch.diff> <Cnn> [tier] -- applies a patch to a scratch worktree of /repo (never /repo itself), runs the repo's own
# test suite there (must pass) and the check against it (HMC_REPO), prints both verdicts, removes the worktree.
# Evidence/replay files written during a mutant run go to a scratch dir, not /verif/evidence.
set -u
PATCH=$(readlink -f "$1"); PROP=$2; TIER=${3:-quick}
WT=$(mktemp -d /tmp/hmc-mut-XXXXXX)
git -C /repo worktree add --detach -f "$WT" HEAD >/dev/null 2>&1 || { echo "worktree failed"; exit 2; }
trap 'git -C /repo worktree remove --force "$WT" >/dev/null 2>&1; rm -rf "$WT"' EXIT
git -C "$WT" apply "$PATCH" || { echo "PATCH-DOES-NOT-APPLY"; exit 2; }
if [ "${SKIP_TESTS:-0}" != "1" ]; then
  /verif/tools/repo_tests.sh "$WT" | tail -2
fi
cd /verif
HMC_REPO="$WT" HMC_OUT="$WT/.hmc_out" ./check "$PROP" --tier "$TIER" 2>&1 | grep -v -e pkg_resources -e UserWarning | tail -${TAIL:-8}
echo "check exit: ${PIPESTATUS[0]}"

#!/venv/bin/python
"""Writes seeded/RESULTS.md and the <!-- SEEDS --> block of DESIGN.md from seeded/*/meta.json."""
import glob, json, os, re
HERE = os.path.dirname(os.path.dirname(os.path.abspath(__file__)))
rows = []
for mp in sorted(glob.glob(os.path.join(HERE, "seeded", "*", "meta.json"))):
    m = json.load(open(mp))
    notes = m.get("needs_to_manifest", "")
    first = re.sub(r"\s+", " ", notes.strip())[:220]
    cr = m.get("check_run", {})
    by = "; ".join(cr.get("violations_not_on_clean_tree", [])[:2])
    rows.append((m["seed_id"], m["property"], "yes" if cr.get("detected") else "NO", by[:160], first))
det = sum(r[2] == "yes" for r in rows)
out = ["<!-- SEEDS:BEGIN -->",
       f"Independent seeded changes (sub-agents that saw only the property record and a scratch worktree; each confirmed by the lead with "
       f"`tools/confirm_seed.sh`: repo tests still pass, demo passes without / fails with the patch): **{det} of {len(rows)} detected** by the quick "
       f"tier of the property's check at the time of the last evaluation (`tools/seed_eval.sh`).",
       "", "| seed | property | detected | first violations not on the clean tree | what it is (from the seeder's notes) |", "|---|---|---|---|---|"]
for r in rows:
    out.append("| " + " | ".join(x.replace("|", "\\|") for x in r) + " |")
out.append("<!-- SEEDS:END -->")
block = "\n".join(out)
open(os.path.join(HERE, "seeded", "RESULTS.md"), "w").write(block + "\n")
p = os.path.join(HERE, "DESIGN.md")
s = open(p).read()
if "<!-- SEEDS:BEGIN -->" in s:
    s = re.sub(r"<!-- SEEDS:BEGIN -->.*<!-- SEEDS:END -->", lambda m: block, s, flags=re.S)
else:
    s += "\n### 10.4 Independent seeded changes and which check catches them\n" + block + "\n"
open(p, "w").write(s)
print(f"{det}/{len(rows)} detected")

#!/venv/bin/python
"""Regenerates /verif/MANIFEST.json from the table below (one entry per property that has a harness in props/).
Properties without an entry here are listed under not_applicable with the reason given in PENDING."""
import glob
import json
import os

HERE = os.path.dirname(os.path.dirname(os.path.abspath(__file__)))

CHECKS = {
    "C01": dict(
        category="exploration", design_ref="DESIGN.md §4 C01",
        technique="bounded-exhaustive input-shape enumeration (template-driven generator) against an independent reference wire encoder",
        text="All 481 templates x value rows covering every alphabet element of every variable x block-count variants x header variants are "
             "encoded by the real serializer, compared byte-for-byte with an independent struct-based reference encoder (own template parser), "
             "decoded eagerly and lazily and compared value-by-value (floats bit-exact); default-fill is enumerated per template and variable. "
             "Exhaustive over the stated finite product, which is what a sequential codec with no cross-variable state needs.",
        note="Values are drawn from boundary alphabets per wire type (8/16-bit boundaries, single large values for 32/64-bit), not full domains; "
             "each-choice rows instead of full cross products; canonical value domain (see evidence assumptions)."),
    "C02": dict(
        category="exploration", design_ref="DESIGN.md §4 C02",
        technique="bounded-exhaustive enumeration of datagrams (generated, byte-mutated, truncated, extended, re-zero-coded) x all inspection histories up to length 3",
        text="Every generator datagram of all 481 templates (laid out by the independent reference encoder), every truncation / single-byte substitution / "
             "extension of 14 basis datagrams and non-canonical zero-codings are pushed through every sequence of {header read, body touch, to_dict, "
             "serialize} up to length 3 in deferred and eager mode; the output must be byte-identical (never parsed, failed parse, parsed with canonical "
             "zero-coding) and must always decode to the same message. Exhaustive over the stated product.",
        note="Datagrams rejected by the header parser are out of scope; byte identity after a successful parse is not demanded when a float decodes to NaN "
             "or the zero-coding is non-canonical; mutation alphabet {00,01,7F,80,FF} per offset."),
    "C04": dict(
        category="model_checking", design_ref="DESIGN.md §4 C04",
        technique="explicit-state BFS over the real InjectionTracker (deepcopy successors, canonical state hashing, deviation bound)",
        text="Every history of {send next, skip ahead, re-send/out-of-order, inject} up to depth 8 (quick) / 10 (thorough) with "
             "tracker windows 1..3 is executed on the real InjectionTracker; after every step all translation laws are evaluated for "
             "every ID in range. Bounded exhaustive: the right level for a pure-data state machine whose bugs are 2-3 events deep.",
        note="IDs older than an injection that aged out of the window are out of scope (bounded memory); packet-ID wrap-around excluded; "
             "production window is 10000, harness uses 1..3 to reach eviction."),
}

PENDING_REASON = "check not built yet (build in progress; will be claimed once its harness exists)"


def main():
    props = [json.loads(l)["id"] for l in open(os.path.join(HERE, "properties.jsonl"))]
    checks, na = [], []
    for pid in props:
        have = glob.glob(os.path.join(HERE, "props", pid.lower() + "_*.py"))
        meta = CHECKS.get(pid)
        if not have or not meta:
            na.append({"property_id": pid, "reason": (meta or {}).get("na_reason", PENDING_REASON)})
            continue
        checks.append({
            "property_id": pid,
            "quick_cmd": f"./check {pid} --tier quick",
            "thorough_cmd": f"./check {pid} --tier thorough",
            "evidence_file": f"/verif/evidence/{pid}.json",
            "replay_cmd_template": f"./check {pid} --replay {{path}}",
            "engine": "hmc",
            "level_claimed": {"category": meta["category"], "text": meta["text"], "design_ref": meta["design_ref"]},
            "level_note": meta["note"],
            "technique": meta["technique"],
        })
    m = {
        "version": 1,
        "setup_cmd": "cd /verif && /venv/bin/python -m compileall -q hmc props >/dev/null && /venv/bin/python -m hmc.selftest",
        "hooks": {
            "guard": "HIPPOLYZER_VERIF",
            "enable": "none needed: ./check imports /repo's working tree directly (editable install) and sets HIPPOLYZER_VERIF=1; "
                      "no guarded source hook exists in /repo",
            "baseline_off_cmd": "cd /repo && /venv/bin/python -m pytest -ra -q -p no:cacheprovider --timeout=900 --continue-on-collection-errors",
            "source_commits": [],
            "add_only": True,
        },
        "engines": [{
            "name": "hmc", "path": "/verif/hmc", "serves_properties": [c["property_id"] for c in checks],
            "kind_free_text": "hand-written explicit-state / bounded-exhaustive explorer that drives the real Python implementation "
                              "(BFS with canonical state hashing, deviation bounding, replayable histories)"}],
        "checks": checks,
        "not_applicable": na,
        "notes": "All checks: exit 0 / 'VIOLATION property=<id> replay=<path>' + exit 1 / exit 2 = HARNESS-ERROR. "
                 "Known findings: /verif/known_findings.json. Design: /verif/DESIGN.md.",
    }
    with open(os.path.join(HERE, "MANIFEST.json"), "w") as f:
        json.dump(m, f, indent=1)
    print(f"MANIFEST.json: {len(checks)} checks, {len(na)} not_applicable")


if __name__ == "__main__":
    main()

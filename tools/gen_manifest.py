#!/venv/bin/python
"""Regenerates /verif/MANIFEST.json from the table below (one entry per property that has a harness in props/).
Properties without an entry here are listed under not_applicable with the reason given in PENDING."""
import glob
import json
import os

HERE = os.path.dirname(os.path.dirname(os.path.abspath(__file__)))

CHECKS = {
    "C01": dict(
        category="exploration", design_ref="DESIGN.md §4 C01",
        technique="bounded-exhaustive input-shape enumeration (template-driven generator) against an independent reference wire encoder",
        text="All 481 templates x value rows covering every alphabet element of every variable x block-count variants x header variants are "
             "encoded by the real serializer, compared byte-for-byte with an independent struct-based reference encoder (own template parser), "
             "decoded eagerly and lazily and compared value-by-value (floats bit-exact); decoded coordinate objects must not be shared between variables or "
             "between results (the decoded message is edited in place and the datagram decoded again); default-fill is enumerated per template and variable, and with exactly "
             "one block (first / middle / last) of every repeated block list marked. A second codec built from a different template file through the message_template= constructors must leave the default codec objects intact. "
             "Codec histories: a conformant message (plain and zero-coded) after each of "
             "up to 7 kinds of rejected serialize / deserialize call, and after all of them in a row, on the same long-lived serializer and deserializers. "
             "Exhaustive over the stated finite product, which is what a sequential codec with no cross-variable state needs.",
        note="Values are drawn from boundary alphabets per wire type (8/16-bit boundaries, single large values for 32/64-bit), not full domains; "
             "each-choice rows instead of full cross products; canonical value domain (see evidence assumptions)."),
    "C02": dict(
        category="exploration", design_ref="DESIGN.md §4 C02",
        technique="bounded-exhaustive enumeration of datagrams (generated, byte-mutated, truncated, extended, re-zero-coded) x all inspection histories up to length 3",
        text="Every generator datagram of all 481 templates (laid out by the independent reference encoder), every truncation / single-byte substitution / "
             "extension of 14 basis datagrams and non-canonical zero-codings are pushed through every sequence of {header read, body touch, to_dict, "
             "serialize} up to length 3 in deferred and eager mode (generator datagrams also after the same codec objects rejected unrelated half-built messages and "
             "undecodable datagrams: XS, XBS, BXS, XBSS; and after an addon take()s the message before / after the body was touched, original and copy inspected in "
             "either order and both serialized); the output must be byte-identical (never parsed, failed parse, parsed with canonical "
             "zero-coding) and must always decode to the same message. Exhaustive over the stated product.",
        note="Datagrams rejected by the header parser are out of scope; byte identity after a successful parse is not demanded when a float decodes to NaN "
             "or the zero-coding is non-canonical; mutation alphabet {00,01,7F,80,FF} per offset."),
    "C08": dict(
        category="exploration", design_ref="DESIGN.md §4 C08",
        technique="bounded-exhaustive enumeration of combinator spec trees (descriptor grammar) x structurally derived value domains (adapters wire-first) "
                  "x {endianness, pod mode, trailing bytes} against a reference encoding built alongside each domain",
        text="Every spec tree up to depth 2 from 66 leaves, 13-18 unary wrappers and 9-10 n-ary/context forms over an 8-leaf basis, plus 419 depth-3 "
             "interaction-family trees, is instantiated from the real combinators; every value of its derived domain (<=24) is written and read back in both "
             "byte orders, pod and non-pod, with none / 00 / FF01 trailing bytes. Required: value equality, reader position == bytes written, trailing bytes "
             "unread, agreement with the reference encoding, a non-raising calc_size() matching every encoding length, out-of-domain probes raise. The family trees "
             "(1,476+) include context-dependent entries (ContextSwitch / ContextAdapter reading ctx._, ctx._._ and ctx._root, by item and by attribute) inside "
             "length-prefixed, fixed-count and greedy collections; IntFlag leaves include a flag class with a zero member, an alias, multi-bit combinations and a "
             "member-less mask swept over the complete 8-bit wire domain (signed, unsigned, rich, pod); PackedQuat is instantiated over every child kind the "
             "library uses with W below, at (+-0.0) and above zero; evidence lists per rest-of-window spec every position in which it is exercised "
             "(window_consuming_positions); constructor options are swept one at a time plus interacting pairs; QuantizedFloat is swept over the tri-state zero_median "
             "option x symmetric / asymmetric / nearly symmetric ranges x U8/S8/U16/S16 against an independent reference dequantiser that takes an explicit "
             "zero_median=False literally. Template / Dataclass-pod dict values are additionally written with absent OPTIONAL members left out of the dict instead of "
             "spelled None, at every nesting depth (same bytes, read-back and framing required); Dataclass trees include a serializable dataclass extending "
             "another, with the two specs built base-first and derived-first in the same process.",
        note="Domains are boundary alphabets and covering rows, not full cross products; n-ary and depth-2 compositions use an 8-/4-leaf basis; ambiguous values "
             "(trailing NUL in Str, embedded terminators, empty payloads under IfPresent/greedy/empty_is_none, duplicate dict keys) are out of domain; "
             "NumPy/LLSD/Forward/FHReader specs are not in the grammar; quantiser saturation is C10's; for quantised-float leaves -0.0 and +0.0 count as equal values and "
             "a zero under a zero median may be written as either centre code (raw-byte identity write(read(b)) == b is C10's sentence, not C08's); explicit "
             "zero_median=True is derived wire-first because the pinned constructor ignores it. Trusted: hmc/specgen.py reference encoder and norm()."),
    "C04": dict(
        category="model_checking", design_ref="DESIGN.md §4 C04",
        technique="explicit-state BFS over the real InjectionTracker (deepcopy successors, canonical state hashing, deviation bound)",
        text="Every history of {send next, skip ahead, re-send/out-of-order, inject} up to depth 8 (quick) / 10 (thorough) with "
             "tracker windows 1..3 is executed on the real InjectionTracker; after every step all translation laws are evaluated for "
             "every ID in range. A second search drives a real ProxiedCircuit (send / drop_message / take + re-inject, first sight flagged RESENT) to depth 6 "
             "(quick) / 7 and evaluates the same laws on the packet ids of the captured datagrams; in every state of that search every ordered list of up to 3 "
             "of the newest 3 (thorough 4) wire ids is acknowledged by an inbound packet (appended acks, PacketAck body, acks on a dropped packet) and the "
             "acks reaching the viewer must be the original ids of the non-injected ones; a forwarded StartPingCheck must carry, for every in-scope id sent so far, "
             "the wire id that packet went out as (or the proxy's own older unacked id, as documented); the circuit search runs with tracker window 2 and 10000 "
             "for an endpoint numbering from 1 and with window 2 for one numbering from 0. Bounded exhaustive: the right level for a small state "
             "machine whose bugs are 2-4 events deep. "
             "Plus closed-form schedules on large windows: W+70 rounds of send/inject with resends and gaps on tracker windows W = 65, 100, 129, 257 (thorough to 2049), the same oracle evaluated densely around and after the eviction point.",
        note="IDs older than an injection that aged out of the window are out of scope (bounded memory); packet-ID wrap-around excluded; "
             "production window is 10000, harness uses 1..3 to reach eviction."),
    "C12": dict(
        category="exploration", design_ref="DESIGN.md §4 C12",
        technique="bounded-exhaustive enumeration of template messages and of LLSD trees (depth<=3/4) x 6 codec paths x 4 process time zones, plus an "
                  "exhaustive sweep of a date's 10^6 sub-second values",
        text="All 481 templates with every alphabet element of every variable (LLSD-carriable domain) are driven through LLSDMessageSerializer (dict and XML "
             "routes) and EventQueueManager.inject_message and compared value by value; all LLSD trees of depth <= 3 (thorough: <= 4 with the full pair product "
             "at depth 2) over 59 typed leaves go through binary (+/- header), BinaryLLSD spec, notation, XML and zip under 4 process time zones and are compared "
             "against an independent tagged canonical model (LLSD type, bit-exact reals, instants in microseconds). Reals additionally include F32-widened doubles and vectors made of them, plus a sweep of every F32 exponent and every F64 exponent x mantissa patterns x signs through all six codecs, bit-exact. The event-queue consumer is driven through every {inject, rewrite-the-same-Message-in-place} sequence of length <= 3 "
             "(thorough 4) per template and value row: each queued event must deserialize to the message as it was at injection time. "
             "Plus cold-process histories: in forked children of a worker that has never converted the template, {serialize, deserialize dict} of a smaller message of the type (trailing blocks omitted, Variable counts 0, one Variable block left out) as the process's first conversion, then serialize / deserialize xml / deserialize dict of the full message, against a child that converts the full message first.",
        note="Siblings are each-choice; naive datetime is taken as UTC; strings containing CR are outside the XML route's domain (XML line-end normalisation); "
             "newline-bearing map keys are not held to the notation-newline sentence (it speaks of string values); tz database, msggen/refwire and stdlib "
             "datetime arithmetic trusted."),
    "C20": dict(
        category="exploration", design_ref="DESIGN.md §4 C20",
        technique="bounded-exhaustive enumeration of inventory models / wearables / wire-first animations and meshes, and of every chunk arrival sequence "
                  "(with duplicates) through the real Xfer/Transfer handlers on a virtual asyncio loop",
        text="(1) Inventory nodes (presence of all optional item fields x metadata shapes, every AssetType/InventoryType/FolderType/SaleType member), <=3-node "
             "models and 17x3x3 wearables in legacy text, legacy LLSD and AIS: parse(serialize(x)) == x and serialisation fixed point. (2) Animations of both "
             "versions built wire-first incl. a sweep of the U16 grid of each quantised member. (3) Mesh assets over all subsets of 9 segment kinds with all "
             "weight-length vectors, parsed / raw-segment / unparsed. (4) Every chunk arrival sequence of length n+2 (quick) / n+3 (thorough) over n<=4 chunks at "
             "every chunk-boundary payload size: completion exactly at the first prefix containing all chunks, never earlier, never reverting; payload equal. "
             "Plus many-chunk transfers (12, 13, 24 chunks; thorough 40, 100) in every mode under closed-form arrival orders: each chunk arriving last, reverse, evens-then-odds, every rotation, each with trailing duplicates.",
        note="Names/descriptions without TAB/CR/LF/'|' and without leading/trailing whitespace (format domain); fields a flavour cannot carry at that flavour's "
             "default; required fields carry a value (parent_id=None out of domain); dates at whole seconds, TZ=UTC; floats NaN-free and f32-exact; animation "
             "and mesh models are the parse of a reference wire image; Transfer sender packets follow the simulator (1000-byte chunks); UDP codec trusted."),
    "C03": dict(
        category="exploration", design_ref="DESIGN.md §4 C03",
        technique="bounded-exhaustive input enumeration over small byte alphabets plus parametric boundary families, differential against a reference zero-code model",
        text="All strings over {00,01,FF} up to length 12 (quick 10) through compress->expand, every zero-run length 0..1100 in 9 left/right contexts incl. "
             "wrap-form tokens, all decoder inputs over {00,01,02,FF} up to length 8 (quick 7), every reference length around the 0x3000 cap with 13 tail-token "
             "shapes, adversarial expansion families with allocation tracing, every ordered pair of strings up to length 4 (thorough 5) with the first "
             "call's un-copied result held across the second call and fed back in, and the pair as wired into the codec (every value row of 14 basis / all 481 "
             "templates flagged zerocoded through the real serialize(), plus messages parsed with trailing bytes and serialized again, and zero-coded datagrams carrying extra header bytes with isolated zeros "
             "through the header peek), each checked against an independent plain-Python statement of the format "
             "(round trip, canonical output, decoder == reference, cap refusal, bounded allocation).",
        note="hmc.refwire zero-code reference trusted (self-checked against six format vectors); between cap and cap+512 the decoder may refuse or return the exact "
             "expansion (it checks per input byte); 'without bound' = tracemalloc peak below 8*cap; header peek covered in C01/C02; no sampled general strings."),
    "C10": dict(
        category="exploration", design_ref="DESIGN.md §4 C10",
        technique="instance discovery by walking live objects from the registry/templates/llanim/mesh + exhaustive sweep of the 8/16-bit wire domain per instance",
        text="Every quantiser / fixed-point instance reachable from the subfield registry, templates, llanim and mesh (95 instances, 21 parameterisations) is swept "
             "over every raw value of its wire type through decode/encode and through the reader/writer path in both byte orders; key-frame times over all 65536 "
             "raws x 41 (quick) / 1026 (thorough) durations; the numpy variant over the full arange. The wrapper layer: every vector wrapper and every adapter over one (PackedQuat over "
             "Vector3U16 / Vector4U16 / Vector4U8; 15 distinct, 28 instances) is swept through its own decode/encode with raw-tuple patterns (all-equal, one "
             "component swept against middle / max,min, anti-diagonal, over all 65,536 raws; 8-bit: all tuples over a 16-point alphabet) in both reader modes. "
             "Clauses: inverse, monotonic, endpoints, exact zero.",
        note="Quantisers constructed lazily inside function bodies are not seen by the walk; classes overriding the quantisation arithmetic are held to inverse, "
             "monotonic and the lower end only; duration 0.0 checked for totality only; key-frame time ends additionally checked for 2271 durations (every 1/8 s up to 64 s, every whole second up to "
             "600 s, every F32 with <= 8 mantissa bits) at the end and middle raws; all clauses run in both reader modes (pod=False/True) incl. vector wrappers through the wire path; two open known findings (PackedTERotation raw -32768, mesh normals have no exact zero)."),
    "C13": dict(
        category="exploration", design_ref="DESIGN.md §4 C13",
        technique="bounded-exhaustive differential enumeration: all 2^11 section-flag combinations x object kinds, per-section content variants, and byte mutations "
                  "of representative payloads through both decoders",
        text="Every one of the 2^11 section-flag combinations x 6 object kinds, 91 per-section content variants under all (thorough) or a covering set of (quick) "
             "enabling flag combinations, and every single-byte substitution (255; quick 5), truncation and one-byte extension of 32 representative payloads are "
             "decoded by the hand-optimised reader and by the declarative template and compared field by field; the template re-encoding is compared byte for byte; "
             "the tracker's normalisation is compared with a plain-Python reference on the network and the cache-file path. Payloads are produced by an "
             "independent reference wire encoder (fixed header, prim parameters, section bits and simple sections hand-packed from the protocol layout) and the "
             "template's own encoding of the same value must be byte-identical (template-encode, template-encode-raises). Wire-first degenerate contents (zero-length / "
             "one byte / length-1 / exact / length+1, prefix and blob consistent) for every length-prefixed, NUL-terminated, fixed-size or to-EOF section and every "
             "ExtraParams entry are judged by the same rule (if the template decodes and re-encodes it, the fast reader must agree). The TextureEntry section is hand-packed by the "
             "reference encoder (canonical face-set bytes, field framing, quantisers restated); exception face sets whose top face sweeps 0..31, 34, 35, 41, 42, 44 "
             "are enumerated. "
             "Text and MediaURL strings include 1023, 1024, 1025 and 5000 bytes.",
        note="Domain = what the reference encoder emits plus byte mutations of it; TextureEntry, ExtraParams and particle sections are encoded by sub-templates "
             "both decoders share, so a defect common to both inside those is visible only through the re-encode clause; a mutated payload is judged only if the template decodes it and re-encodes "
             "it to itself; PCodes outside the enum are counted, not asserted; enums by value, dataclasses by fields, lazy proxies forced, floats bit-exact; decode "
             "histories of depth 3 (decode, in-place edit of the result, decode again by all four decoder paths on the same, twin and shifted payloads), one forked "
             "process per history; encode histories (single-member out-of-domain edits per template member plus bad values for 4 other subfield serializers, each "
             "probe-confirmed to raise after partial output, up to 3 failures before a check); copy.deepcopy trusted."),
    "C18": dict(
        category="model_checking", design_ref="DESIGN.md §4 C18",
        technique="explicit-state BFS over the real FilteringMessageLogger plus bounded-exhaustive enumeration of filter expression trees, leaf comparisons and export/import cases",
        text="BFS over the real FilteringMessageLogger (ring buffer 1, 2 and 3; alphabet log LLUDP/EQ/HTTP, four filters incl. match-nothing and type-inapplicable, pause, "
             "resume, clear; depth 5 quick / 7 thorough) checks after every operation that the view equals the retained entries matching the current filter, in "
             "arrival order, no duplicates; plus every history prefix . set_filter(narrowing) . (maxlen+1..maxlen+2 logs, every kind sequence) . "
             "set_filter(wider) with prefixes {none, clear, log.clear, pause.resume, 3 logs} on ring buffer 2, executed without state deduplication (2,160 "
             "histories); state identity includes the bound of every entry container. Log events are delivered through every public entry: logger.log_* (ring "
             "buffers 1-3), add_log_entry directly, and a WrappingMessageLogger fan-out with a second logger whose pause/resume is in the alphabet; the view "
             "invariant is checked for each logger. Export/import and freeze/thaw compare the message header type-exactly (acks tuple, extra bytes, flags, packet id "
             "incl. None, direction, dropped/synthetic, meta) and differentially: every leaf filter of the selector table with bare / == / != x 18 literals must "
             "give the same verdict on each of 15 entries before and after export+import, freeze+thaw and freeze+export+import. Around it: every depth<=2 expression tree and every unparenthesised chain up to length 4 over 7 leaf filters x 11 "
             "entries x both short-circuit modes (root vs children vs denotation); every operator x literal kind x selector shape x 12 entries against a plain "
             "type-table reference, also through add_log_entry/set_filter; freeze/thaw and export/import of one message per template plus EQ and HTTP entries.",
        note="Chains follow the grammar as written (right-nested, no precedence, ! binds to the next term); a bare selector means presence/truthiness; the verdict is "
             "not pinned (only 'no exception') for a few str/bytes operand mixes listed in the harness; 'retained' = ring buffer plus entries that aged out while "
             "visible and matched every later filter; fnmatch, the C01 codec, hmc.msggen and mitmproxy test flows (uuid4/time pinned) trusted; open known finding: the "
             "export's LLSD form loses vector / stringy-bytes / tuple field types, so == / != verdicts on such fields change after import."),
    "C05": dict(
        category="model_checking", design_ref="DESIGN.md §4 C05",
        technique="explicit-state BFS (level-synchronous, deviation-bounded staircase, canonical state hashing) over the real ProxiedCircuit under a virtual "
                  "loop/clock, differential against a reference model, plus deep-vs-shallow seam conformance",
        text="Every history over {endpoint send reliable/unreliable with appended acks for none/oldest/newest/all pending receipts, forwarded or dropped; standalone "
             "PacketAck; endpoint retransmission; proxy injection reliable/unreliable; addon take() of a reliable packet with its copy re-sent at once or after "
             "any later events, and take() of an already finalized packet (after its own drop_message, or after its own forward) with the copy re-sent; "
             "the 'all pending' ack choice in receipt, descending and rotated order (appended, on dropped packets, in PacketAck bodies); a standalone "
             "PacketAck carrying both ack forms, every split of the <=3 pending receipts into body, appendix or both; an addon cancelling the completion future of "
             "a pending injected reliable packet (once per history); an endpoint retransmitting a reliable packet the proxy dropped, with fresh appended acks, "
             "dropped again; StartPingCheck with OldestUnacked sent or unsent; tick short/past/exhaust} per direction is executed on a real ProxiedCircuit "
             "(real deserializer in, real serializer out) to depth 5 with <=2 deviations and depth 4 with <=3 (quick), plus 5/<=3, 6/<=2 and 7/0 (thorough); the same "
             "histories to depth 3 (4) are replayed through InterceptingLLUDPProxyProtocol.datagram_received with a real Session, a drop addon and the attempt_resends task and must "
             "emit identical datagrams. The oracle reads only the decoded datagrams handed to the transport and the futures of send_reliable, one clause per sentence.",
        note="Endpoints number packets 1,2,3.., ack only reliable packets they received, retransmit only their own unacked reliable packets; delivery to endpoints is "
             "lossless and instant (late/lost acks via ack-selection choices); retry budget and interval read from the code; one poll of slack at the interval "
             "boundary; take and ping weigh 2 in the deviation bound, only reliable packets are taken, a re-sent copy of a taken packet must show no acknowledgement at all, after a cancel nothing is demanded of that packet's own completion or "
             "retransmission but no exception may escape collect_acks / resend_unacked / datagram_received / the resend task, the rewritten OldestUnacked is recorded in the outcome "
             "signature but not judged; deep-seam tick(exhaust) is polled one poll before/at/after each instant the model expects something due; not covered: ID wrap, "
             "10000-window eviction, dropping a standalone PacketAck; hmc.refwire, a 20-line decoder, "
             "hmc.vloop and the hand-written world clone (re-validated by full replay on every 53rd state) trusted."),
    "C06": dict(
        category="model_checking", design_ref="DESIGN.md §4 C06",
        technique="explicit-state BFS on InterceptingLLUDPProxyProtocol.datagram_received (replay-from-history, canonical state hashing, deviation bounding) + bounded-exhaustive sweeps",
        text="BFS over the real datagram_received with 2 associations x 2 regions (shared simulator addresses, one IP): valid datagrams (UseCircuitCode first "
             "contact/repeat, ordinary, reliable with acks, retransmissions flagged RELIABLE|RESENT with the sender's last id / the peer's last id / an unseen id, "
             "both directions) interleaved with 21 kinds of garbage, to depth 4 / 2 deviations (quick) and 5 / 3 "
             "(thorough) from two bases, states deduplicated on full session, circuit, tracker and address-map state. Plus exhaustive sweeps: every garbage/valid "
             "interleaving in two deep base states, the SOCKS framing law over addresses x ports x payload lengths, and every template x value row in both "
             "directions through one open circuit (also through a neighbour circuit next to the open main circuit and through a neighbour registered without a "
             "region handle, alone and next to the main circuit), with independently parsed SOCKS and LLUDP headers; plus repeated-garbage "
             "histories for every garbage kind (each banned name), socket-level faults (protocol.error_received with 4 errnos; EMSGSIZE from a real oversize "
             "inbound datagram) interleaved with valid traffic, associations x teardown at the SOCKS control seam (both associations created by the real SOCKS5 control handler on in-memory streams; every "
             "sequence <= 4 of traffic on either viewer and either control connection ending: ending X tears down X only), region re-announcement (an already registered region handle announced at a new address with the old circuit "
             "alive / cleanly closed / absent, then UseCircuitCode and traffic at the new and old addresses), and flood scenarios up to 300 distinct far addresses / source hosts / truncated datagrams before "
             "valid traffic.",
        note="One message shape per event class in the BFS (all 481 templates only in the single-circuit sweep); exceptions escaping datagram_received are swallowed as "
             "asyncio's datagram transport does; the ban list is an inbound rule; an ACK flag with an empty ack list compares equal to no ACK flag; dead circuits carry no judged traffic (only the kill and re-open datagrams are asserted); "
             "no viewer port change or packet-id wrap in the BFS; HOME viewer-cache scan, message.xml re-parse and multiprocessing queues neutralised by the harness."),
    "C07": dict(
        category="fault_enumeration", design_ref="DESIGN.md §4 C07",
        technique="exhaustive fault-placement enumeration up to a fault bound against a reference dispatch/ownership model, plus exhaustive op-sequence enumeration "
                  "of the message-ownership state machine",
        text="For each of 18 messages (direction x reliability with an ack of a proxy-injected packet x {chat, command-channel chat, RLV with 1 and 2 commands, "
             "CloseCircuit, valid-header/unparseable-body}), incl. subscriber predicates (true/false/raising) and body-touching hooks, every single behaviour of every hook slot (3 addons x handle_proxied_packet / session subscriber / region subscriber / "
             "handle_lludp_message / handle_rlv_command / command) over 14 behaviours, every slot pair over a 10-behaviour list and (thorough) every one-slot-per-addon "
             "triple is executed on the real protocol, followed by a probe datagram per direction; wire emissions are attributed to Message objects and compared with a "
             "reference model. Separately all op sequences of length <=4 over {take, send, drop, queue, sendcopy} x 8 message variants on a bare ProxiedCircuit, "
             "plus 1056 async-subscription life-cycle cases (subscribe_async / wait_for on one and on two message names, resolved by either name, left by every "
             "route; a later datagram of each other name must go out exactly once) on the virtual loop. A dropped reliable message is acknowledged to its sender "
             "exactly once, also when the command or a hook failed (bookkeeping-drop-ack). Hot-reload family: real addon scripts (plain / hot_reload of a "
             "dependency) with dependency, script or both edited on disk while a session is up (reload throttle removed deterministically); datagrams around the "
             "edits are forwarded exactly once with the script's hook invoked. "
             "Plus a long-run family: n datagrams (n around 200, 256, 1024; thorough to 10001) per direction through two instances of one addon class, one failing in every hook on every datagram, with an always-failing and a healthy subscriber on each handler: every datagram forwarded exactly once with every hook invoked.",
        note="Behaviours are armed for the message under test only; pairs/triples use representative lists; async subscribers are represented by the sync take(); "
             "ownership combinations the proxy itself rejects with RuntimeError are checked for the wire and probe clauses only and counted; only Exception subclasses "
             "are raised; the reference model follows the documented dispatch rules."),
    "C16": dict(
        category="model_checking", design_ref="DESIGN.md §4 C16",
        technique="explicit-state BFS by history replay over the real SessionManager/Session/ProxiedRegion/MITMProxyEventManager + exhaustive enumeration of seed request/response cases",
        text="BFS over the real objects in a 2-session x 2-region universe against a plain list-of-grants reference model (three stated alphabets: full on the first "
             "region, full on the last region in resolution order, lite across all four); after every transition every known URL (plus a suffix) is resolved at "
             "manager, session and region level and every cap name is looked up in every region. A repeated-grants family grants one name 8x with distinct URLs per kind (NORMAL via update_caps / Seed response, WRAPPER, PROXY_ONLY then NORMAL, 1..8 "
             "one-shots consumed oldest-/newest-first per API) with the full resolve-everything sweep after each grant; an uploads family pushes, for every name in UPLOAD_CREATING_CAPS x region, 1..3 upload-creating "
             "responses through the real _handle_response before any uploader is used and then resolves the uploader URLs in every order; a shared-asset-urls family pushes Seed responses through the real event manager in which every "
             "2-/3-/4-subset of GetMesh, GetMesh2, GetTexture, ViewerAsset shares one upstream URL (others absent or distinct): every presented asset URL must "
             "resolve to its own <Cap>ProxyWrapper in the right region and session. The Seed request/response rewriting is additionally enumerated "
             "exhaustively over viewer lists x simulator grants behind 9 prefixes through the real event manager.",
        note="The simulator grants only names in the upstream request; Seed URLs unique per region; a live one-shot URL is not registered again; a URL extending several "
             "live grants may resolve to any of them ('extends' is textual), except wrapper URLs which must each resolve to their own region and session; an exception "
             "escaping the looked-up APIs is a violation; plain asset caps may resolve with region/session None as documented; llsd XML, mitmproxy state "
             "serialisation and in-memory queue stand-ins trusted."),
    "C09": dict(
        category="exploration", design_ref="DESIGN.md §4 C09",
        technique="bounded-exhaustive enumeration over every registry entry x context value x {object, pod} with forked per-time-zone workers; round-trip / fixed-point / literal-evaluation oracle",
        text="Every entry of SUBFIELD_SERIALIZERS (197; iterated, not listed) x every context value of the sibling field it reads x {object, pod}: the complete 8/16-bit "
             "wire domain is swept, 32/64-bit domains use a boundary / single-bit / all-but-one-bit / members+-1 alphabet; payloads are built one leaf at a time from "
             "the serializer's own template with all subsets of option-switching flag bits; 'accepted payloads' add single-byte substitution, truncation, extension "
             "and cross-context feeding (fixed point after one pass); date entries run under 4 process time zones across every minute within +-2 h of 12 DST "
             "transitions plus sub-second raws; Block cache invalidation and pod literal evaluation are checked per entry. Every quantised vector/quaternion element "
             "gets raws {min, min+1, mid-1, mid, mid+1, max-1, max} (8-bit: all) one component at a time from two bases, both value-first and spliced directly into "
             "the payload bytes. Encode histories: [fail], [fail, fail], [foreign fail], [foreign fail, fail] (failing encodes that raise after writing >= 1 byte) "
             "followed by serialize / serialize(pod) / Block.serialize_var must give the bytes two clean encodes gave. For each abstract subfield-serializer base that "
             "addons subclass (FlagSwitched, EnumSwitched, Simple/TEMPLATE, Adapter, AdapterInstance, the registration helpers) two harness-defined subclasses with "
             "different templates behind the same selector values and one shipped subclass are used interleaved in all orders against hand-built reference bytes. Copy isolation: a value handed out by Block.deserialize_var (first call, later "
             "call, after a no-copy call) is edited deeply in place without write-back, after which the block's decoded view, its pod decoding and "
             "serialize_var(k, deserialize_var(k)) must still correspond to the unchanged wire value.",
        note="Wire types from message_template.msg through the independent parser; 32/64-bit domains by alphabet; UNSERIALIZABLE means 'no pretty form'; floats NaN-free; "
             "9 registrations naming variables that do not exist in the template are out of scope; value generation uses the library's spec objects and adapter grids; "
             "a round-trip oracle cannot see an encoder that loses information consistently with its decoder (C13 covers the compressed-update template independently)."),
    "C11": dict(
        category="exploration", design_ref="DESIGN.md §4 C11",
        technique="bounded-exhaustive enumeration of decoded generator messages x torture text values x {beautify} x replacement tables; text-level enumeration of "
                  "eval-operator rewrites and expression payloads for the safe-mode clause with three independent evaluation detectors",
        text="Every message the template-driven generator produces for all 481 templates (value rows, block-count variants, all 256 flag bytes on basis templates), with "
             "byte-variable alphabets extended by a text-layer torture list (59 str / 33 bytes / 7 Fixed values; characters a lenient parser might normalise -- all typographic quotes U+2018-201F, NBSP, "
             "ZWSP, dashes, ellipsis, fullwidth = # $, BOM, NEL, LS/PS -- in str and UTF-8 bytes values and inside string fields of pretty-printed subfields; incl. the product {wrapped at 100 columns, "
             ">=5-newline form} x {' #', tab-#, trailing ' \\', '=|', '=$', '[[NAME]]', '<1,2,3>', UUID-looking, parentheses} inside str and bytes values), is decoded from its datagram, printed with to_human_string (plain and beautified, four "
             "replacement tables, both directions), parsed with from_human_string(safe=True), serialized and compared with the datagram body. All reachable subfield "
             "serializers are exercised in beautified form (dense integer sets; context x fill x length payloads). Safe mode: 5 eval-operator rewrites and 46 expression "
             "payloads under '=' and '=|' at every variable position of every template's text, with a sentinel, counted builtins.eval/exec and an import side-effect probe.",
        note="Floats finite (the literal syntax has no inf/nan); zerocoded bodies above the decoder's cap out of domain; packet id, acks and extra are comments in the format "
             "and copied before comparison; [[NAME]] replacement lookups count as caller data; each-choice values in multi-variable messages; open known finding: a "
             "Variable block with count 0 has no text form."),
    "C15": dict(
        category="fault_enumeration", design_ref="DESIGN.md §4 C15",
        technique="bounded exhaustive fault-placement enumeration (flows x single faults x addon behaviours, all fault pairs, all behaviour pairs) through the real "
                  "pump_proxy_event with the real SLMITMAddon on the other end of deterministic in-memory queues",
        text="231 flows (request/response x 11 cap kinds x plain/injected/browser x empty/valid/malformed body) x 11 single faults x 13 addon behaviours, then all fault "
             "pairs and all addon1 x addon2 behaviour pairs, through the real MITMProxyEventManager.pump_proxy_event: the number of ('callback', id, state) items per flow "
             "is checked against an ownership log (exactly one, immediately unless taken, else exactly at resume) and two later events of another flow are pumped. Every "
             "get_state/from_state transfer (direct and pickled) over kinds x 2 sessions x 2 colliding regions x flags x modification subsets; every item sequence up to "
             "length 3 (4 thorough) through the real IPCInterceptionAddon._pump_callbacks counting resume() calls. Owners that acquire the flow through "
             "wait_for() / subscribe_async() on the session- and region-level http_message_handler (default take) and take=False observers (3,168 cases); cap "
             "attribution (name, type, base URL, session id, region address) of the handed-back state on the request and the response leg for viewer, browser and "
             "the proxy's own (X-Hippo-Injected) requests against an independent cap table. Copy + replay (the addon_examples/message_mirror.py pattern) with the "
             "real proxy-side _pump_callbacks and request hook in the loop (only replay.client stubbed): every intercepted flow object resumed exactly once per "
             "interception, copies have fresh ids; preempt() after {never taken, taken and released in the hook, taken and released later}: exactly one preempt "
             "item carrying the injected response. Flows whose incoming state already carries a stale cap attribution (replays; consumed TEMPORARY cap) must be "
             "handed back with what the URL resolves to now on both legs; wait_for() waiters that ended by timeout, cancellation or an earlier flow own nothing; a flow that already has an owner is never handed to a second "
             "taker (two hooks; session- and region-level waiters on the same flow). "
             "Two-phase cases also with the owning session closed / the owning region dropped between the request and the response event (response still handed back exactly once).",
        note="Waiter ownership is taken from the public contract (dispatched to a default-take waiter means owned until its resume()). A taken, never-resumed flow stays with its taker; faults are Python exceptions at the listed points; pickling/OS-queue failure, a real mitmproxy master, TLS "
             "and sockets are out of scope; mitmproxy.ctx.master stubbed for replay/shutdown; ownership is per flow (first successful take() until the one successful resume()); "
             "includes the owner of a taken flow's cap data (region/session) being dropped and garbage-collected before release; wrapper-cap requests: an addon's "
             "rewrite of path/query/URL must survive the event manager's own redirect, in both the 307 and the URL-rewrite strategy."),
    "C17": dict(
        category="model_checking", design_ref="DESIGN.md §4 C17",
        technique="explicit-state BFS of event-queue poll rounds through the real MITMProxyEventManager.pump_proxy_event (hmc.explore.bfs, canonical-state dedup, "
                  "determinism rechecks) against a plain-Python reference model",
        text="A poll round is {viewer ack current | repeated} x {simulator answers 1-2 events of 6 kinds, undef, 502/499/404} x {addon swallows none/first/all} x "
             "{delivered | lost | delivered after the region was torn down between the request leg and the simulator's answer}, plus injections (inject_event, "
             "inject_message) and region teardown, driven through the real event manager, EventQueueManager, "
             "register_region, LLSDMessageSerializer and SLMITMAddon hooks; the reference model predicts the exact body each poll must return and the region table "
             "after it. Quick depth 4 / 3 deviations; thorough depth 6 (delivery) and depth 4 (region announcements). "
             "Two further searches use simulator response ids starting at 1,000,000 and at -2,000,000,000 (outside any small-integer identity range).",
        note="In-memory queues with pickle round trip, virtual loop, MockTransport; simulator ids strictly increase, events never re-sent, no empty event list, events "
             "well-formed; a stale poll repeats the immediately preceding ack; no two simulators share a seed URL; teardown may drop pending injections; injected events "
             "are only required to keep FIFO order among themselves; the wake-up PlacesQuery is observed, not demanded; 2-3 regions with independent event queues; "
             "announcements may reuse a known handle at a new address or a known address with a new handle; mid-poll teardown is enumerated once per region, for the "
             "emptied-response and single-announcement answers; a region may be granted a second EventQueueGet URL (Seed re-fetch), later polls use the new URL; a two-sessions search has two sessions whose regions share one circuit address, polls interleaved, oracle per (session, "
             "region) queue."),
    "C19": dict(
        category="model_checking", design_ref="DESIGN.md §4 C19",
        technique="explicit-state BFS with deviation bounding over the real client endpoint under a virtual loop/clock (history-replay successors, canon-deduplicated "
                  "states, determinism rechecks) against a plain reference model",
        text="BFS over the real HippoClientProtocol.datagram_received, Session and Region handlers, Circuit and the resend task: every history up to 7 events (quick 5) "
             "with at most 3 deviations over peer packets id 1..3 x chat/ping x reliable/RESENT/duplicate/out-of-order/task-deferral, both ack forms for every subset of "
             "outstanding ids plus stale and future ids, client reliable and unreliable sends, and ticks short of, past and across the retry budget, the caller cancelling a pending send's future (once per history), StartPingCheck packets whose OldestUnacked names any reliable id the peer "
             "sent / its newest id / newest+1 followed by retransmissions, in six "
             "subscriber/circuit configurations (queue-style subscribe_async subscribers at both levels fed packets with identical bodies under different ids; a region unregistered and registered again at the same address with traffic on both sides; solo; shared Event; peer traffic on a not-yet-alive circuit across the handshake-completes transition; "
             "self-unsubscribing subscribers -- wait_for, one_shot, handler returning True -- registered ahead of persistent ones on every Event at both levels; all "
             "asserted), plus PacketAck datagrams carrying body and appended ids in every "
             "split and client sends of Messages with a preset packet_id (0, last, last-1, last+50, a received message echoed back). Twelve oracle clauses against a reference model (always ack, dispatch at most once "
             "per subscriber incl. region level, unreliable always delivered, completion exactly on ack, failure exactly at budget, ids strictly increasing). Plus a bounded-exhaustive dedupe-window family: reliable ids x bursts of W-1, W, W+1 unreliable packets x "
             "retransmission with / without RESENT, W measured behaviourally through Circuit.track_reliable (1000). "
             "Plus an aliasing-id family: reliable id a, one other reliable id a+delta for every delta in {2^k-1, 2^k, 2^k+1 : k <= 24} and the window sizes, both arrival orders, then both retransmitted: ids that collide in whatever index backs the dedupe window are still told apart.",
        note="Each re-registration restarts ids and the pre-re-registration history is kept in the state identity; only unreliable traffic may lie between a reliable "
             "packet and its retransmission in the window family (more than W reliable packets in between is out of scope: bounded memory). One region; at most 2 reliable and 1 unreliable client sends per history; a peer never reuses a packet id for a different message; acks and ping replies "
             "are demanded by the next loop quiescence; one 0.5 s resend-poll period of lateness allowed, never earliness; retry budget and interval read from the code; "
             "hmc.refwire and a 20-line header decoder trusted; template mtime reload disabled and MessageDotXML memoised by the harness; connect() itself needs HTTP "
             "and is not executed: its is_alive flip and its wait_for are reproduced by the harness; the pre-handshake and self-unsubscribe configurations run one "
             "event short of the horizon in the thorough tier."),
    "C14": dict(
        category="model_checking", design_ref="DESIGN.md §4 C14",
        technique="explicit-state BFS (hmc.explore.bfs, history replay, virtual asyncio loop) over object-update / kill / request histories against an independent dict scene-graph model",
        text="BFS over histories of object updates (full, compressed, terse, cached hit/miss/viewer-cache hit), property replies, single and multi kills, object "
             "requests, region teardown/re-track, the cache-miss timer and deferred future callbacks, delivered through the real UDP codec to a real proxy Session "
             "with two regions; the viewer object cache is a chain of two per-viewer caches (the announced entry behind a stale entry of the first cache in every "
             "search; a cache sub-alphabet repeats the cached-update events with the chain fresh-first, disjoint and with equal entries); a region's viewer cache file is rewritten (CRC change, same CacheID) on every teardown "
             "and reloaded through the real load_cache() on re-track; marking dead a region that is registered but untracked while objects claim its handle is in "
             "the alphabet; objects moved to an untracked region handle must stay in the session-wide full-ID index, with the harness holding no reference to "
             "them. After every event the local-ID and full-ID indices, parent/child/orphan links, the avatar view, swallowed handler exceptions and "
             "request futures are compared with an independent scene-graph model. The scene-graph sub-alphabet for one region and the request sub-alphabet for one "
             "local ID are searched to saturation; the other searches are bounded (depth 3-6, at most 3 deviations), ~1.2 million transitions in the thorough tier. "
             "Plus a closed-form scale family: one orphan, then n prims each waiting for its own never-seen parent (n around 100, 256, 1024; thorough to 20000), then the oldest, first and last awaited parents appear (adoption in both directions) and the oldest is killed (cascade).",
        note="Universe of 3 full IDs (one avatar), 3 local IDs per region (2 in two-region searches), 2 regions; local-ID and region symmetry reductions; at most 2 "
             "pending requests; proxy settings fixed (USE_VIEWER_OBJECT_CACHE, AUTOMATICALLY_REQUEST_MISSING_OBJECTS); the model mirrors the code's documented choices "
             "for avatar kill-exemption and regionless objects and asserts nothing about them; missing_locals postconditions are observations, not violations; "
             "SessionManager built without HTTPFlowContext, viewer cache directory scan stubbed; histories are not extended past a violation."),
}

PENDING_REASON = "check not built yet (build in progress; will be claimed once its harness exists)"


def main():
    props = [json.loads(l)["id"] for l in open(os.path.join(HERE, "properties.jsonl"))]
    checks, na = [], []
    for pid in props:
        have = glob.glob(os.path.join(HERE, "props", pid.lower() + "_*.py"))
        meta = CHECKS.get(pid)
        if not have or not meta:
            na.append({"property_id": pid, "reason": (meta or {}).get("na_reason", PENDING_REASON)})
            continue
        checks.append({
            "property_id": pid,
            "quick_cmd": f"./check {pid} --tier quick",
            "thorough_cmd": f"./check {pid} --tier thorough",
            "evidence_file": f"/verif/evidence/{pid}.json",
            "replay_cmd_template": f"./check {pid} --replay {{path}}",
            "engine": "hmc",
            "level_claimed": {"category": meta["category"], "text": meta["text"], "design_ref": meta["design_ref"]},
            "level_note": meta["note"],
            "technique": meta["technique"],
        })
    m = {
        "version": 1,
        "setup_cmd": "cd /verif && /venv/bin/python -m compileall -q hmc props >/dev/null && /venv/bin/python -m hmc.selftest",
        "hooks": {
            "guard": "HIPPOLYZER_VERIF",
            "enable": "none needed: ./check imports /repo's working tree directly (editable install) and sets HIPPOLYZER_VERIF=1; "
                      "no guarded source hook exists in /repo",
            "baseline_off_cmd": "cd /repo && /venv/bin/python -m pytest -ra -q -p no:cacheprovider --timeout=900 --continue-on-collection-errors",
            "source_commits": [],
            "add_only": True,
        },
        "engines": [{
            "name": "hmc", "path": "/verif/hmc", "serves_properties": [c["property_id"] for c in checks],
            "kind_free_text": "hand-written explicit-state / bounded-exhaustive explorer that drives the real Python implementation "
                              "(BFS with canonical state hashing, deviation bounding, replayable histories)"}],
        "checks": checks,
        "not_applicable": na,
        "notes": "All checks: exit 0 / 'VIOLATION property=<id> replay=<path>' + exit 1 / exit 2 = HARNESS-ERROR. "
                 "Known findings: /verif/known_findings.json. Design: /verif/DESIGN.md.",
    }
    with open(os.path.join(HERE, "MANIFEST.json"), "w") as f:
        json.dump(m, f, indent=1)
    print(f"MANIFEST.json: {len(checks)} checks, {len(na)} not_applicable")


if __name__ == "__main__":
    main()

#!/bin/bash
# tools/refactor_all.sh : runs every archived behaviour-preserving refactoring (refactors/<Cnn>-R<k>/patch.diff) against the quick check of
# the property it was written for (and the neighbouring checks listed below) in a scratch worktree, and writes refactors/RESULTS.md.
# Expected: exit 0 everywhere -- a VIOLATION or HARNESS-ERROR on one of these is a false alarm of the check.
cd /verif
declare -A EXTRA=( [C01]="C02" [C03]="C01" [C15]="C16" [C08]="C09" [C04]="C05" )
OUT=refactors/RESULTS.md
{
echo "# Behaviour-preserving refactorings vs. the checks (expected: exit 0, no VIOLATION, no HARNESS-ERROR)"
echo
echo "| refactoring | check | exit | violations | harness errors |"
echo "|---|---|---|---|---|"
} > $OUT
for R in refactors/C*-R*; do
  [ -f "$R/patch.diff" ] || continue
  if grep -q "^$(basename $R) " refactors/STALE.txt 2>/dev/null; then echo "| $(basename $R) | - | stale (see refactors/STALE.txt) | - | - |" >> $OUT; continue; fi
  P=$(basename $R | cut -d- -f1)
  for C in $P ${EXTRA[$P]}; do
    LOG=$(SKIP_TESTS=1 TAIL=30 VERIF_JOBS=${VERIF_JOBS:-10} tools/mutant_run.sh "$R/patch.diff" "$C" quick 2>&1)
    RC=$(echo "$LOG" | grep 'check exit' | sed 's/check exit: //')
    echo "| $(basename $R) | $C | $RC | $(echo "$LOG" | grep -E -c '^VIOLATION') | $(echo "$LOG" | grep -c HARNESS-ERROR) |" >> $OUT
    echo "$(basename $R) $C -> $RC"
  done
done

#!/bin/bash
# tools/refactor_eval.sh <refout dir> <Cnn> [more Cnn...] : applies each R*/patch.diff (behaviour-preserving refactorings written by independent
# sub-agents) to a scratch worktree and runs the given checks against it. A VIOLATION or HARNESS-ERROR here is a FALSE ALARM of the check.
D=$1; shift
for R in "$D"/R*; do
  [ -f "$R/patch.diff" ] || continue
  for P in "$@"; do
    OUT=$(SKIP_TESTS=1 TAIL=30 VERIF_JOBS=${VERIF_JOBS:-10} /verif/tools/mutant_run.sh "$R/patch.diff" "$P" quick 2>&1)
    RC=$(echo "$OUT" | grep 'check exit' | sed 's/check exit: //')
    echo "REFACTOR $R prop=$P exit=$RC $(echo "$OUT" | grep -E -c '^VIOLATION') violations $(echo "$OUT" | grep -c HARNESS-ERROR) harness-errors"
    echo "$OUT" | grep -E -A1 '^VIOLATION|HARNESS-ERROR|Error|PATCH-DOES' | head -8
  done
done

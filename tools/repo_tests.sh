#!/bin/bash
# Runs the repository's pinned test suite in <dir> (default /repo); succeeds iff the only failures are the
# baseline's always_fail / flaky entries. The HTTP integration tests use real multiprocessing queues and time out when the
# machine is oversubscribed: failures confined to tests/proxy/integration/test_http.py are re-run once, alone.
# Usage: tools/repo_tests.sh [dir]
D=${1:-/repo}
cd "$D" || exit 2
run() { PYTHONPATH="$D" /venv/bin/python -m pytest -q -p no:cacheprovider --timeout=${PYTEST_TIMEOUT:-240} --continue-on-collection-errors "$@" 2>&1 | tail -15; }
OUT=$(run)
echo "$OUT" | tail -4
BAD=$(echo "$OUT" | grep -E '^(FAILED|ERROR)' | grep -v -e test_mitmproxy_works -e test_large_xfer_upload)
if [ -n "$BAD" ] && [ -z "$(echo "$BAD" | grep -v 'tests/proxy/integration/test_http.py')" ]; then
  echo "re-running tests/proxy/integration/test_http.py alone (load-sensitive)"
  OUT2=$(run tests/proxy/integration/test_http.py)
  echo "$OUT2" | tail -3
  BAD=$(echo "$OUT2" | grep -E '^(FAILED|ERROR)' | grep -v -e test_mitmproxy_works)
fi
if [ -n "$BAD" ]; then echo "UNEXPECTED FAILURES:"; echo "$BAD"; exit 1; fi
echo "$OUT" | grep -qE '[0-9]+ passed' || exit 1
echo "repo tests OK (baseline failures only)"

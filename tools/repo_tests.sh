#!/bin/bash
# Runs the repository's pinned test suite in <dir> (default /repo); succeeds iff the only failures are the
# baseline's always_fail / flaky entries. Usage: tools/repo_tests.sh [dir]
D=${1:-/repo}
cd "$D" || exit 2
OUT=$(PYTHONPATH="$D" /venv/bin/python -m pytest -q -p no:cacheprovider --timeout=900 --continue-on-collection-errors 2>&1 | tail -15)
echo "$OUT" | tail -6
BAD=$(echo "$OUT" | grep -E '^(FAILED|ERROR)' | grep -v -e test_mitmproxy_works -e test_large_xfer_upload)
if [ -n "$BAD" ]; then echo "UNEXPECTED FAILURES:"; echo "$BAD"; exit 1; fi
echo "$OUT" | grep -qE '[0-9]+ passed' || exit 1
echo "repo tests OK (baseline failures only)"

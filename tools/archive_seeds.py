#!/venv/bin/python
"""tools/archive_seeds.py <seed_eval log>...  -- copies every seed that the log shows as SEED-CONFIRMED from /tmp/seedout-Cxx/{A,B}
into /verif/seeded/<Cxx>-<A|B>/ (patch.diff, demo.py, notes.md) and writes meta.json from the log lines (what was run, what the
check reported). Seeds are produced by independent sub-agents that saw only the property text and a scratch worktree."""
import json
import os
import re
import shutil
import sys

VERIF = os.path.dirname(os.path.dirname(os.path.abspath(__file__)))


def main():
    for log in sys.argv[1:]:
        lines = open(log).read().splitlines()
        i = 0
        while i < len(lines):
            m = re.match(r"SEED (\S+) prop=(C\d+) tier=(\w+) :: (\S+).*:: violations=(\d+) check exit: (\d+)", lines[i])
            if not m:
                i += 1
                continue
            src, prop, tier, verdict, nviol, rc = m.groups()
            det = []
            i += 1
            while i < len(lines) and not lines[i].startswith("SEED "):
                c = re.search(r"clause=(\S+) site=(.+?) detail=", lines[i])
                if c:
                    det.append(f"{c.group(1)} @ {c.group(2)}")
                i += 1
            if verdict != "SEED-CONFIRMED" or not os.path.isdir(src):
                print(f"skip {src}: {verdict}")
                continue
            owner = re.search(r"-(C\d+)/[A-Z]/?$", src)
            if owner and owner.group(1) != prop:
                print(f"cross-check {src} against {prop}: exit {rc} (not archived under {prop})")
                continue
            sid = f"{prop}-{os.path.basename(src.rstrip('/'))}"
            dst = os.path.join(VERIF, "seeded", sid)
            os.makedirs(dst, exist_ok=True)
            for f in ("patch.diff", "demo.py", "notes.md"):
                if os.path.exists(os.path.join(src, f)):
                    shutil.copy(os.path.join(src, f), os.path.join(dst, f))
            notes = open(os.path.join(dst, "notes.md")).read() if os.path.exists(os.path.join(dst, "notes.md")) else ""
            meta_path = os.path.join(dst, "meta.json")
            meta = json.load(open(meta_path)) if os.path.exists(meta_path) else {}
            base = set()
            ev = os.path.join(VERIF, "evidence", f"{prop}.json")
            if os.path.exists(ev):
                base = set(json.load(open(ev))["coverage"].get("violation_sites", []))
            new_det = [d for d in det if d.replace(" @ ", "@") not in base]
            meta.update({
                "seed_id": sid, "property": prop,
                "origin": "independent sub-agent given only the property record and its own scratch worktree of /repo",
                "needs_to_manifest": notes.strip()[:1500],
                "confirmed_by_lead": {
                    "command": f"tools/confirm_seed.sh seeded/{sid}",
                    "result": "patch applies to /repo HEAD in a scratch worktree; repo test suite still passes with it (baseline failures only); "
                              "demo.py exits 0 without the patch and non-zero with it",
                },
                "check_run": {"command": f"tools/mutant_run.sh seeded/{sid}/patch.diff {prop} {tier}", "exit": int(rc),
                              "detected": int(rc) == 1 and len(new_det) > 0,
                              "violations_not_on_clean_tree": new_det[:8],
                              "note": "detected = the check exits 1 with at least one (clause, site) that the unchanged tree does not report"},
            })
            json.dump(meta, open(meta_path, "w"), indent=1)
            print(f"archived {sid}: detected={meta['check_run']['detected']} {new_det[:2]}")


if __name__ == "__main__":
    main()

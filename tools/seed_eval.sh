#!/bin/bash
# tools/seed_eval.sh <seed_dir> <Cnn> [tier]: confirm seed then run the check against it; prints one summary line.
S=$1; P=$2; T=${3:-quick}
C=$(/verif/tools/confirm_seed.sh "$S" 2>&1 | tail -1)
R=$(SKIP_TESTS=1 TAIL=80 /verif/tools/mutant_run.sh "$S/patch.diff" "$P" "$T" 2>&1)
V=$(echo "$R" | grep -c '^VIOLATION')
X=$(echo "$R" | grep 'check exit' )
echo "SEED $S prop=$P tier=$T :: $C :: violations=$V $X"
echo "$R" | grep -A1 '^VIOLATION' | head -60

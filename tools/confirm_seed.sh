#!/bin/bash
# tools/confirm_seed.sh <seed_dir> : seed_dir contains patch.diff and demo.py.
# Confirms in a throw-away worktree of /repo HEAD: patch applies, repo tests still pass with it, demo fails with it and passes without it.
set -u
S=$(readlink -f "$1")
WT=$(mktemp -d /tmp/hmc-seed-XXXXXX)
git -C /repo worktree add --detach -f "$WT" HEAD >/dev/null 2>&1 || { echo "worktree failed"; exit 2; }
trap 'git -C /repo worktree remove --force "$WT" >/dev/null 2>&1; rm -rf "$WT"' EXIT
echo "== demo WITHOUT patch (must pass)"
( cd "$WT" && PYTHONPATH="$WT" timeout 600 /venv/bin/python "$S/demo.py" >"$WT.clean.log" 2>&1 ); RC0=$?
tail -3 "$WT.clean.log"; echo "rc=$RC0"
git -C "$WT" apply "$S/patch.diff" || { echo "PATCH-DOES-NOT-APPLY"; exit 2; }
echo "== repo tests WITH patch (must pass)"
/verif/tools/repo_tests.sh "$WT" | tail -2; RT=${PIPESTATUS[0]}
echo "== demo WITH patch (must fail)"
( cd "$WT" && PYTHONPATH="$WT" timeout 600 /venv/bin/python "$S/demo.py" >"$WT.mut.log" 2>&1 ); RC1=$?
tail -3 "$WT.mut.log"; echo "rc=$RC1"
rm -f "$WT.clean.log" "$WT.mut.log"
if [ $RC0 -eq 0 ] && [ $RC1 -ne 0 ] && [ $RT -eq 0 ]; then echo "SEED-CONFIRMED"; exit 0; else echo "SEED-REJECTED (clean rc=$RC0 mutant rc=$RC1 tests rc=$RT)"; exit 1; fi

"""Shared pieces for harnesses that drive a real proxy ``Session`` with tracked regions without a network (C14).

* ``build_world(nregions)``: virtual loop + ``SessionManager``/``Session``/``ProxiedRegion`` objects built the way
  ``hippolyzer.lib.proxy.test_utils.BaseProxyTest`` and ``tests/proxy/test_object_manager.py`` build them
  (``create_session`` from login data, ``register_region``, ``open_circuit`` on a ``MockTransport``,
  ``track_region_objects``), with a per-region viewer-object-cache chain injected where the tests patch
  ``RegionViewerObjectCacheChain.for_region``.
* ``wire(kind, *args)``: datagram bytes for one simulator message, built with the library's ``Message``/``Block`` and
  the real ``UDPMessageSerializer`` (cached per argument tuple; the bytes are immutable).  ``deliver`` runs the real
  ``UDPMessageDeserializer`` on them for every delivery, so each handler call sees a fresh ``Message``.
* ``SwallowRecorder``: stands in for ``hippolyzer.lib.base.events.LOG`` so that exceptions swallowed by
  ``Event.notify`` (``LOG.exception``) are recorded with the innermost library frame (``check`` disables logging
  globally, so a logging handler would see nothing).

Environment stubs (outside the anchored files, named in the evidence as trusted base): ``SessionManager`` is built
with ``HTTPFlowContext``/``multiprocessing.Event`` replaced by inert objects (they create OS semaphores and pipes,
1.6 ms per world, and are never touched by object tracking), and ``iter_viewer_cache_dirs`` returns nothing (it scans
the home directory: environment nondeterminism, 2.4 ms per world).
"""
from __future__ import annotations

import sys
import threading
import time
import traceback
from typing import Any, Dict, List, Optional, Tuple

import hippolyzer.lib.base.events as events_mod
import hippolyzer.lib.base.message.circuit as circuit_mod
import hippolyzer.lib.proxy.inventory_manager as inv_mod
import hippolyzer.lib.proxy.sessions as sessions_mod
import hippolyzer.lib.proxy.vocache as vocache_mod
from hippolyzer.lib.base.datatypes import UUID, Vector3, Quaternion
from hippolyzer.lib.base.message.message import Block, Message
from hippolyzer.lib.base.message.udpdeserializer import UDPMessageDeserializer
from hippolyzer.lib.base.message.udpserializer import UDPMessageSerializer
from hippolyzer.lib.base.templates import PCode, ObjectUpdateCompressedDataSerializer, CompressedFlags
from hippolyzer.lib.base.test_utils import MockTransport
from hippolyzer.lib.proxy.addons import AddonManager
from hippolyzer.lib.proxy.settings import ProxySettings
from hippolyzer.lib.proxy.vocache import RegionViewerObjectCache, RegionViewerObjectCacheChain, ViewerObjectCacheEntry

from . import vloop
from .core import HarnessError

# ---- the small universe -----------------------------------------------------------------------------------------
HANDLES = ((256000 << 32) | 256000, (256256 << 32) | 256000, (256512 << 32) | 256000)
ADDRS = (("127.0.0.1", 3), ("127.0.0.1", 9), ("127.0.0.1", 11))
CLIENT_ADDR = ("127.0.0.1", 1)
FULLS = (UUID(int=0xF0F0_0000_0000_0000_0000_0000_0000_0001),
         UUID(int=0xF1F1_0000_0000_0000_0000_0000_0000_0002),
         UUID(int=0xF2F2_0000_0000_0000_0000_0000_0000_0003))
UPDATE_FLAGS = 268568894
TE = (b'\x89UgG$\xcbC\xed\x92\x0bG\xca\xed\x15F_\x00\x00\x00\x00\x00\x00\x00\x00\x80?\x00\x00'
      b'\x00\x80?\x00\x00\x00\x00\x00\x00\x00\x00\x00\x00\x00\x00\x00\x00\x00\x00\x00\x00\x00'
      b'\x00\x00\x00\x00\x00\x00\x00\x00\x00\x00\x00\x00\x00')
# tests/proxy/test_object_manager.py OBJECT_UPDATE_COMPRESSED_DATA (a real viewer-cache entry); re-keyed below.
_COMPRESSED_SAMPLE = (
    b"\x12\x12\x10\xbf\x16XB~\x8f\xb4\xfb\x00\x1a\xcd\x9b\xe5\xd2\x04\x00\x00\t\x00\xcdG\x00\x00"
    b"\x03\x00\x00\x00\x1cB\x00\x00\x1cB\xcd\xcc\xcc=\xedG,"
    b"B\x9e\xb1\x9eBff\xa0A\x00\x00\x00\x00\x00\x00\x00\x00["
    b"\x8b\xf8\xbe\xc0\x00\x00\x00k\x9b\xc4\xfe3\nOa\xbb\xe2\xe4\xb2C\xac7\xbd\x00\x00\x00\x00"
    b"\x00\x00\x00\x00\x00\x00\xa2=\x010\x00\x11\x00\x00\x00\x89UgG$\xcbC\xed\x92\x0bG\xca\xed"
    b"\x15F_@ \x00\x00\x00\x00d\x96\x00\x00\x00\x00\x00\x00\x00\x00\x00\x00\x00\x00\x00\x00\x00"
    b"\x00?\x00\x00\x00\x1c\x9fJoI\x8dH\xa0\x9d\xc4&''\x19=g\x00\x00\x00\x003\x00ff\x86\xbf"
    b"\x00ff\x86?\x00\x00\x00\x00\x00\x00\x00\x00\x00\x00\x00\x00\x00\x00\x00\x00\x89UgG$\xcbC"
    b"\xed\x92\x0bG\xca\xed\x15F_\x10\x00\x00\x003\x00\x01\x01\x00\x00\x00\x00\xdb\x0f\xc9@\xa6"
    b"\x9b\xc4="
)

_SER = UDPMessageSerializer()
_DESER = UDPMessageDeserializer()
_WIRE: Dict[tuple, bytes] = {}
_COMPRESSED: Dict[tuple, bytes] = {}


def compressed_data(full: UUID, local: int, parent: int, crc: int, pcode=PCode.PRIMITIVE) -> bytes:
    """ObjectUpdateCompressed / viewer-cache ``Data`` payload, written by the library's own serializer."""
    key = (full, local, parent, crc, int(pcode))
    if key not in _COMPRESSED:
        ser = ObjectUpdateCompressedDataSerializer
        d = dict(ser.deserialize(None, _COMPRESSED_SAMPLE))
        d["FullID"], d["ID"], d["CRC"], d["PCode"] = full, local, crc, pcode
        flags = d["Flags"]
        if parent:
            d["ParentID"] = parent
            flags |= CompressedFlags.PARENT_ID
        else:
            d["ParentID"] = None
            flags &= ~CompressedFlags.PARENT_ID
        d["Flags"] = flags
        _COMPRESSED[key] = bytes(ser.serialize(None, d))
    return _COMPRESSED[key]


def _build(kind: str, *a) -> Message:
    if kind == "ObjectUpdate":
        handle, full, local, parent, pcode, crc = a
        msg = Message(
            "ObjectUpdate",
            Block("RegionData", RegionHandle=handle, TimeDilation=123),
            Block("ObjectData", ID=local, FullID=full, PCode=pcode, CRC=crc, Scale=Vector3(0.5, 0.5, 0.5),
                  UpdateFlags=UPDATE_FLAGS, PathCurve=16, ParentID=parent, ProfileCurve=1, PathScaleX=100,
                  PathScaleY=100, NameValue=None, TextureEntry=TE, TextColor=b'\x00\x00\x00\x00',
                  ExtraParams=b'\x00', fill_missing=True))
        msg["ObjectData"][0].serialize_var("ObjectData", (60, {
            'Position': (1.0, 2.0, 3.0), 'Velocity': (0.0, 0.0, 0.0), 'Acceleration': (0.0, 0.0, 0.0),
            'Rotation': (0.0, 0.0, 0.0, 1.0), 'AngularVelocity': (0.0, 0.0, 0.0)}))
        return msg
    if kind == "ObjectUpdateCompressed":
        handle, full, local, parent, pcode, crc = a
        return Message(
            "ObjectUpdateCompressed",
            Block("RegionData", RegionHandle=handle, TimeDilation=123),
            Block("ObjectData", UpdateFlags=UPDATE_FLAGS, Data=compressed_data(full, local, parent, crc, pcode)))
    if kind == "ImprovedTerseObjectUpdate":
        handle, local = a
        return Message(
            "ImprovedTerseObjectUpdate",
            Block("RegionData", RegionHandle=handle, TimeDilation=123),
            Block("ObjectData", Data_={
                'ID': local, 'State': 0, 'FootCollisionPlane': None, 'Position': Vector3(1.0, 2.0, 3.0),
                'Velocity': Vector3(0.0, 0.0, 0.0), 'Acceleration': Vector3(0.0, 0.0, 0.0),
                'Rotation': Quaternion(0.0, 0.0, 0.0, 1.0), 'AngularVelocity': Vector3(0.0, 0.0, 0.0)},
                TextureEntry_=None))
    if kind == "ObjectUpdateCached":
        handle, local, crc = a
        return Message(
            "ObjectUpdateCached",
            Block("RegionData", RegionHandle=handle, TimeDilation=123),
            Block("ObjectData", ID=local, CRC=crc, UpdateFlags=UPDATE_FLAGS))
    if kind == "ObjectProperties":
        (full,) = a
        return Message("ObjectProperties",
                       Block("ObjectData", ObjectID=full, Name="Foobar", Description="desc", TextureID=b"",
                             fill_missing=True))
    if kind == "ObjectPropertiesFamily":
        (full,) = a
        return Message("ObjectPropertiesFamily",
                       Block("ObjectData", ObjectID=full, Name="Foobar", Description="desc", fill_missing=True))
    if kind == "KillObject":
        return Message("KillObject", *[Block("ObjectData", ID=x) for x in a])
    raise KeyError(kind)


def wire(kind: str, *a) -> bytes:
    key = (kind,) + a
    b = _WIRE.get(key)
    if b is None:
        for attempt in range(5):
            try:
                b = _WIRE[key] = bytes(_SER.serialize(_build(kind, *a)))
                break
            except OSError:
                # Message() stats templates.py (maybe_reload_templates); the file can be missing for an instant while
                # someone else rewrites the repository. Environment trouble, never a finding.
                if attempt == 4:
                    raise HarnessError("library files unreadable while building a message")
                time.sleep(0.1)
    return b


def parse(region, data: bytes) -> Message:
    """Datagram -> Message through the real deserializer (errors here are harness errors, not findings)."""
    msg = _DESER.deserialize(data)
    msg.sender = region.circuit_addr
    return msg


# ---- swallowed exceptions ---------------------------------------------------------------------------------------
def exception_site(exc: BaseException) -> str:
    """Innermost frame inside the library (qualified function name) + exception type (+ missing attribute)."""
    site = "?"
    for frame, _ in traceback.walk_tb(exc.__traceback__):
        fn = frame.f_code.co_filename
        if "/hippolyzer/" in fn:
            site = getattr(frame.f_code, "co_qualname", frame.f_code.co_name)
    extra = type(exc).__name__
    if isinstance(exc, AttributeError) and getattr(exc, "name", None):
        extra += f"({exc.name})"
    return f"{site}:{extra}"


class SwallowRecorder:
    """Replacement for ``events.LOG``: ``Event.notify`` reports a failing subscriber through ``LOG.exception``."""

    def __init__(self):
        self.raised: List[Dict[str, str]] = []

    def exception(self, msg, *a, **kw):
        exc = sys.exc_info()[1]
        if exc is not None:
            self.raised.append({"site": exception_site(exc), "detail": f"{msg}: {exc!r}"})

    def _noop(self, *a, **kw):
        pass

    debug = info = warning = error = critical = log = _noop


class _CheapMP:
    """`multiprocessing` as seen by sessions.py: only ``Event`` is used (shutdown signal, never touched here)."""
    Event = threading.Event


_ENV_PATCHED = False


def patch_environment():
    global _ENV_PATCHED
    if _ENV_PATCHED:
        return
    sessions_mod.multiprocessing = _CheapMP
    sessions_mod.HTTPFlowContext = lambda: None
    inv_mod.iter_viewer_cache_dirs = lambda: []
    _ENV_PATCHED = True


class LiveWorld:
    """The real objects of one replay."""
    __slots__ = ("loop", "session_manager", "session", "regions", "transport", "recorder", "vo_entries")


def build_world(nregions: int, vo_entries, settings: Optional[Dict[str, Any]] = None) -> LiveWorld:
    """``vo_entries(region_index) -> [ViewerObjectCacheEntry]`` describes the viewer's object cache for a region."""
    patch_environment()
    lw = LiveWorld()
    lw.loop = vloop.VLoop()
    vloop.install(lw.loop, clock_modules=[circuit_mod])
    lw.recorder = SwallowRecorder()
    events_mod.LOG = lw.recorder
    # class-level addon state: no addons, nothing left over from a previous replay
    AddonManager.FRESH_ADDON_MODULES.clear()
    AddonManager.BASE_ADDON_SPECS.clear()
    AddonManager.SESSION_MANAGER = None
    AddonManager._SUBPROCESS = False
    ps = ProxySettings()
    for k, v in (settings or {}).items():
        setattr(ps, k, v)
    lw.session_manager = sessions_mod.SessionManager(ps)
    hx, hy = HANDLES[0] >> 32, HANDLES[0] & 0xFFFFFFFF
    lw.session = lw.session_manager.create_session({
        "session_id": UUID(int=0x51), "secure_session_id": UUID(int=0x52), "agent_id": UUID(int=0x53),
        "circuit_code": 1234, "sim_ip": ADDRS[0][0], "sim_port": ADDRS[0][1],
        "region_x": hx, "region_y": hy, "seed_capability": "https://test.localhost:4/foo"})
    lw.transport = MockTransport()
    lw.session_manager.claim_session(lw.session.id)
    for i in range(1, nregions):
        lw.session.register_region(ADDRS[i], f"https://localhost:{5 + i}", HANDLES[i])
    lw.regions = list(lw.session.regions)
    lw.vo_entries = vo_entries

    def _for_region(handle, cache_id, cache_dir=None):
        idx = HANDLES.index(handle)
        entries = list(vo_entries(idx))
        if entries and isinstance(entries[0], (list, tuple)):
            # a chain of several per-viewer caches for this region (same CacheID), in lookup order
            return RegionViewerObjectCacheChain([RegionViewerObjectCache(cache_id, list(e)) for e in entries])
        return RegionViewerObjectCacheChain([RegionViewerObjectCache(cache_id, entries)])

    vocache_mod.RegionViewerObjectCacheChain.for_region = staticmethod(_for_region)
    for region in lw.regions:
        connect_region(lw, region)
    lw.session.main_region = lw.regions[0]
    if not recorder_sees_swallowed_exceptions():
        events_mod.LOG = lw.recorder
        wrap_subscribers(lw)
    return lw


def connect_region(lw: LiveWorld, region):
    """What UseCircuitCode + RegionHandshake do in ``InterceptingLLUDPProxyProtocol.handle_proxied_packet``."""
    lw.session.open_circuit(CLIENT_ADDR, region.circuit_addr, lw.transport)
    lw.session.objects.track_region_objects(region.handle)
    if lw.session_manager.settings.USE_VIEWER_OBJECT_CACHE:
        region.objects.load_cache()


def deliver(lw: LiveWorld, region, data: bytes):
    """Simulator -> proxy datagram, handled like tests' WrappingMessageHandler (session handler, then region handler)."""
    msg = parse(region, data)
    lw.session.message_handler.handle(msg)
    region.message_handler.handle(msg)
    return msg


# =================================================================================================================
# Looks at *private* state of the object managers (all of them go through here).  Known names first, then type/shape;
# every miss is counted in hmc.introspect.FALLBACKS; nothing here raises: callers drop the clause that needs the value.
# =================================================================================================================
import asyncio  # noqa: E402
import collections  # noqa: E402
import collections.abc  # noqa: E402
import weakref  # noqa: E402

from hippolyzer.lib.base.objects import Object  # noqa: E402

from . import introspect  # noqa: E402

_ANCHORED = ("hippolyzer.lib.client.object_manager", "hippolyzer.lib.proxy.object_manager")
_WEAK_TYPES = (weakref.ProxyType, weakref.CallableProxyType, weakref.ReferenceType)
_SEQ = (list, tuple, collections.deque)


def _is_int(x) -> bool:
    return isinstance(x, int) and not isinstance(x, bool)


def _anchored(v) -> bool:
    """Instance of a class defined in the object-manager modules (state holders, helper containers, Avatar)."""
    return type(v) not in _WEAK_TYPES and getattr(type(v), "__module__", "") in _ANCHORED


def _own_members(v):
    return [(n, x) for n, x in introspect.members(v) if not n.startswith("__")]


def region_state(region):
    """The per-region state holder (public attribute ``state`` of the region's object manager)."""
    om = region.objects
    st = getattr(om, "state", None)
    if st is not None and callable(getattr(st, "register_future", None)):
        return st
    return introspect.resolve(om, ["state"], pred=lambda v: callable(getattr(v, "register_future", None)),
                              what="ClientObjectManager.state")


def _flat_ints(k):
    if _is_int(k):
        return (int(k),)
    if isinstance(k, tuple):
        return tuple(int(x) for x in k if _is_int(x))
    return ()


def reachable_futures(state, max_depth: int = 5):
    """Every asyncio.Future reachable from the state holder's members through dicts / sequences / helper objects:
    ``[(future, (local_id, type) or None)]``.  The key is read off the dict keys on the way down ((local, type) tuple keys
    or local -> type nesting); futures reachable only through sequences stay unattributed (None)."""
    found: Dict[int, list] = {}

    def walk(v, keys, d):
        if type(v) in _WEAK_TYPES:
            return
        if isinstance(v, asyncio.Future):
            e = found.setdefault(id(v), [v, None])
            if e[1] is None and keys:
                e[1] = (keys[0], keys[1] if len(keys) > 1 else None)
            return
        if d >= max_depth or v is None or isinstance(v, (str, bytes, int, float)):
            return
        if isinstance(v, collections.abc.Mapping):
            for k, x in list(v.items()):
                walk(x, keys + _flat_ints(k), d + 1)
        elif isinstance(v, _SEQ) or isinstance(v, (set, frozenset)):
            for x in list(v):
                walk(x, keys, d + 1)
        elif _anchored(v):
            for _, x in _own_members(v):
                walk(x, keys, d + 1)

    if state is not None:
        for _, v in _own_members(state):
            walk(v, (), 1)
    return [(f, key) for f, key in found.values()]


_ORPHAN_PATH: Dict[type, tuple] = {}


def _orphan_shaped(m) -> bool:
    return bool(m) and all(_is_int(k) and isinstance(x, _SEQ) and all(_is_int(y) for y in x) for k, x in m.items())


def orphan_map(state):
    """parent local -> [child locals] as the region state holds it, or None when it cannot be located.
    Known name ``_orphans``; else the member (or the single mapping one level inside a helper object) whose content has
    that shape -- remembered per class once it has been seen non-empty."""
    if state is None:
        return None
    try:
        v = object.__getattribute__(state, "_orphans")
        if isinstance(v, collections.abc.Mapping):
            return v
    except AttributeError:
        pass
    introspect.note_fallback("RegionObjectsState._orphans")
    cands = []
    for name, v in _own_members(state):
        if isinstance(v, collections.abc.Mapping):
            cands.append(((name,), v))
        elif _anchored(v):
            inner = [(n2, x) for n2, x in _own_members(v) if isinstance(x, collections.abc.Mapping)]
            if len(inner) == 1:
                cands.append(((name, inner[0][0]), inner[0][1]))
    shaped = [(p, m) for p, m in cands if _orphan_shaped(m)]
    if len(shaped) == 1:
        _ORPHAN_PATH[type(state)] = shaped[0][0]
        return shaped[0][1]
    path = _ORPHAN_PATH.get(type(state))
    if path is not None and not shaped:
        for p, m in cands:
            if p == path:
                return m
    return None


def _is_container(frozen) -> bool:
    return isinstance(frozen, tuple) and len(frozen) >= 1 and frozen[0] in ("seq", "map", "set")


def generic_state(o, now: float = 0.0, depth: int = 0):
    """Canonical dump of live manager state without naming fields: instances of classes from the object-manager modules
    are dumped member by member (sorted by name), dicts keep their order, futures / timers / Objects are summarised,
    anything else from outside is reduced to its type name."""
    t = type(o)
    if t in _WEAK_TYPES:
        return "weak"
    if o is None or isinstance(o, (bool, str, bytes, float)):
        return o
    if isinstance(o, int):
        return int(o)
    if isinstance(o, UUID):
        return str(o)
    if isinstance(o, asyncio.Future):
        return ("fut", o.done(), o.cancelled())
    if isinstance(o, asyncio.TimerHandle):
        return ("timer", o.cancelled(), round(o.when() - now, 3))
    if isinstance(o, asyncio.Handle):
        return ("handle", o.cancelled())
    if isinstance(o, asyncio.Lock):
        return ("lock", o.locked())
    if isinstance(o, Object):
        return ("obj", str(o.FullID), o.LocalID, o.ParentID, o.RegionHandle)
    if depth > 7:
        return t.__name__
    if isinstance(o, collections.abc.Mapping):
        items = [(generic_state(k, now, depth + 1), generic_state(v, now, depth + 1)) for k, v in list(o.items())]
        if not any(_is_container(v) for _, v in items):
            # plain lookup tables (key -> Object / scalar / helper object): entry order is not observable through
            # anything the property talks about.  Maps of containers (future registries, orphan lists) keep their order:
            # it can decide which waiter is cancelled / woken first.
            items.sort(key=lambda kv: repr(kv[0]))
        return ("map",) + tuple(items)
    if isinstance(o, _SEQ):
        return ("seq",) + tuple(generic_state(x, now, depth + 1) for x in o)
    if isinstance(o, (set, frozenset)):
        return ("set",) + tuple(sorted((generic_state(x, now, depth + 1) for x in o), key=repr))
    if _anchored(o):
        return (t.__name__,) + tuple(sorted(((n, generic_state(v, now, depth + 1)) for n, v in _own_members(o)),
                                            key=lambda kv: kv[0]))
    if getattr(t, "__module__", "") == "hippolyzer.lib.base.datatypes":
        return repr(o)
    return t.__name__


_RECORDER_OK: Optional[bool] = None


def recorder_sees_swallowed_exceptions() -> bool:
    """Self-test (once per process): does an exception raised by an Event subscriber reach the recorder installed as
    ``events.LOG``?  If the dispatcher no longer reports through that name the harness wraps subscribers instead."""
    global _RECORDER_OK
    if _RECORDER_OK is None:
        saved = getattr(events_mod, "LOG", None)
        rec = SwallowRecorder()
        events_mod.LOG = rec
        try:
            ev = events_mod.Event("selftest")

            def _boom(_arg):
                raise RuntimeError("selftest")
            ev.subscribe(_boom)
            ev.notify(None)
        except Exception:
            pass
        events_mod.LOG = saved
        _RECORDER_OK = bool(rec.raised)
        if not _RECORDER_OK:
            introspect.note_fallback("events.LOG")
    return _RECORDER_OK


def wrap_subscribers(lw: "LiveWorld"):
    """Fallback when the recorder cannot be installed: wrap every subscriber of the session's message handler so that
    what it raises is recorded before the dispatcher swallows it."""
    handlers = getattr(lw.session.message_handler, "handlers", None)
    if not isinstance(handlers, dict):
        return
    for event in handlers.values():
        subs = getattr(event, "subscribers", None)
        if not isinstance(subs, list):
            continue
        for i, tup in enumerate(list(subs)):
            if not (isinstance(tup, tuple) and tup and callable(tup[0])) or getattr(tup[0], "_c14_wrapped", False):
                continue

            def make(fn):
                def wrapped(*a, **kw):
                    try:
                        return fn(*a, **kw)
                    except Exception as e:
                        lw.recorder.raised.append({"site": exception_site(e), "detail": f"subscriber raised {e!r}"})
                        raise
                wrapped._c14_wrapped = True
                return wrapped
            subs[i] = (make(tup[0]),) + tuple(tup[1:])

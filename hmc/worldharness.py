"""Shared pieces for harnesses that drive a real proxy ``Session`` with tracked regions without a network (C14).

* ``build_world(nregions)``: virtual loop + ``SessionManager``/``Session``/``ProxiedRegion`` objects built the way
  ``hippolyzer.lib.proxy.test_utils.BaseProxyTest`` and ``tests/proxy/test_object_manager.py`` build them
  (``create_session`` from login data, ``register_region``, ``open_circuit`` on a ``MockTransport``,
  ``track_region_objects``), with a per-region viewer-object-cache chain injected where the tests patch
  ``RegionViewerObjectCacheChain.for_region``.
* ``wire(kind, *args)``: datagram bytes for one simulator message, built with the library's ``Message``/``Block`` and
  the real ``UDPMessageSerializer`` (cached per argument tuple; the bytes are immutable).  ``deliver`` runs the real
  ``UDPMessageDeserializer`` on them for every delivery, so each handler call sees a fresh ``Message``.
* ``SwallowRecorder``: stands in for ``hippolyzer.lib.base.events.LOG`` so that exceptions swallowed by
  ``Event.notify`` (``LOG.exception``) are recorded with the innermost library frame (``check`` disables logging
  globally, so a logging handler would see nothing).

Environment stubs (outside the anchored files, named in the evidence as trusted base): ``SessionManager`` is built
with ``HTTPFlowContext``/``multiprocessing.Event`` replaced by inert objects (they create OS semaphores and pipes,
1.6 ms per world, and are never touched by object tracking), and ``iter_viewer_cache_dirs`` returns nothing (it scans
the home directory: environment nondeterminism, 2.4 ms per world).
"""
from __future__ import annotations

import sys
import threading
import time
import traceback
from typing import Any, Dict, List, Optional, Tuple

import hippolyzer.lib.base.events as events_mod
import hippolyzer.lib.base.message.circuit as circuit_mod
import hippolyzer.lib.proxy.inventory_manager as inv_mod
import hippolyzer.lib.proxy.sessions as sessions_mod
import hippolyzer.lib.proxy.vocache as vocache_mod
from hippolyzer.lib.base.datatypes import UUID, Vector3, Quaternion
from hippolyzer.lib.base.message.message import Block, Message
from hippolyzer.lib.base.message.udpdeserializer import UDPMessageDeserializer
from hippolyzer.lib.base.message.udpserializer import UDPMessageSerializer
from hippolyzer.lib.base.templates import PCode, ObjectUpdateCompressedDataSerializer, CompressedFlags
from hippolyzer.lib.base.test_utils import MockTransport
from hippolyzer.lib.proxy.addons import AddonManager
from hippolyzer.lib.proxy.settings import ProxySettings
from hippolyzer.lib.proxy.vocache import RegionViewerObjectCache, RegionViewerObjectCacheChain, ViewerObjectCacheEntry

from . import vloop
from .core import HarnessError

# ---- the small universe -----------------------------------------------------------------------------------------
HANDLES = ((256000 << 32) | 256000, (256256 << 32) | 256000, (256512 << 32) | 256000)
ADDRS = (("127.0.0.1", 3), ("127.0.0.1", 9), ("127.0.0.1", 11))
CLIENT_ADDR = ("127.0.0.1", 1)
FULLS = (UUID(int=0xF0F0_0000_0000_0000_0000_0000_0000_0001),
         UUID(int=0xF1F1_0000_0000_0000_0000_0000_0000_0002),
         UUID(int=0xF2F2_0000_0000_0000_0000_0000_0000_0003))
UPDATE_FLAGS = 268568894
TE = (b'\x89UgG$\xcbC\xed\x92\x0bG\xca\xed\x15F_\x00\x00\x00\x00\x00\x00\x00\x00\x80?\x00\x00'
      b'\x00\x80?\x00\x00\x00\x00\x00\x00\x00\x00\x00\x00\x00\x00\x00\x00\x00\x00\x00\x00\x00'
      b'\x00\x00\x00\x00\x00\x00\x00\x00\x00\x00\x00\x00\x00')
# tests/proxy/test_object_manager.py OBJECT_UPDATE_COMPRESSED_DATA (a real viewer-cache entry); re-keyed below.
_COMPRESSED_SAMPLE = (
    b"\x12\x12\x10\xbf\x16XB~\x8f\xb4\xfb\x00\x1a\xcd\x9b\xe5\xd2\x04\x00\x00\t\x00\xcdG\x00\x00"
    b"\x03\x00\x00\x00\x1cB\x00\x00\x1cB\xcd\xcc\xcc=\xedG,"
    b"B\x9e\xb1\x9eBff\xa0A\x00\x00\x00\x00\x00\x00\x00\x00["
    b"\x8b\xf8\xbe\xc0\x00\x00\x00k\x9b\xc4\xfe3\nOa\xbb\xe2\xe4\xb2C\xac7\xbd\x00\x00\x00\x00"
    b"\x00\x00\x00\x00\x00\x00\xa2=\x010\x00\x11\x00\x00\x00\x89UgG$\xcbC\xed\x92\x0bG\xca\xed"
    b"\x15F_@ \x00\x00\x00\x00d\x96\x00\x00\x00\x00\x00\x00\x00\x00\x00\x00\x00\x00\x00\x00\x00"
    b"\x00?\x00\x00\x00\x1c\x9fJoI\x8dH\xa0\x9d\xc4&''\x19=g\x00\x00\x00\x003\x00ff\x86\xbf"
    b"\x00ff\x86?\x00\x00\x00\x00\x00\x00\x00\x00\x00\x00\x00\x00\x00\x00\x00\x00\x89UgG$\xcbC"
    b"\xed\x92\x0bG\xca\xed\x15F_\x10\x00\x00\x003\x00\x01\x01\x00\x00\x00\x00\xdb\x0f\xc9@\xa6"
    b"\x9b\xc4="
)

_SER = UDPMessageSerializer()
_DESER = UDPMessageDeserializer()
_WIRE: Dict[tuple, bytes] = {}
_COMPRESSED: Dict[tuple, bytes] = {}


def compressed_data(full: UUID, local: int, parent: int, crc: int, pcode=PCode.PRIMITIVE) -> bytes:
    """ObjectUpdateCompressed / viewer-cache ``Data`` payload, written by the library's own serializer."""
    key = (full, local, parent, crc, int(pcode))
    if key not in _COMPRESSED:
        ser = ObjectUpdateCompressedDataSerializer
        d = dict(ser.deserialize(None, _COMPRESSED_SAMPLE))
        d["FullID"], d["ID"], d["CRC"], d["PCode"] = full, local, crc, pcode
        flags = d["Flags"]
        if parent:
            d["ParentID"] = parent
            flags |= CompressedFlags.PARENT_ID
        else:
            d["ParentID"] = None
            flags &= ~CompressedFlags.PARENT_ID
        d["Flags"] = flags
        _COMPRESSED[key] = bytes(ser.serialize(None, d))
    return _COMPRESSED[key]


def _build(kind: str, *a) -> Message:
    if kind == "ObjectUpdate":
        handle, full, local, parent, pcode, crc = a
        msg = Message(
            "ObjectUpdate",
            Block("RegionData", RegionHandle=handle, TimeDilation=123),
            Block("ObjectData", ID=local, FullID=full, PCode=pcode, CRC=crc, Scale=Vector3(0.5, 0.5, 0.5),
                  UpdateFlags=UPDATE_FLAGS, PathCurve=16, ParentID=parent, ProfileCurve=1, PathScaleX=100,
                  PathScaleY=100, NameValue=None, TextureEntry=TE, TextColor=b'\x00\x00\x00\x00',
                  ExtraParams=b'\x00', fill_missing=True))
        msg["ObjectData"][0].serialize_var("ObjectData", (60, {
            'Position': (1.0, 2.0, 3.0), 'Velocity': (0.0, 0.0, 0.0), 'Acceleration': (0.0, 0.0, 0.0),
            'Rotation': (0.0, 0.0, 0.0, 1.0), 'AngularVelocity': (0.0, 0.0, 0.0)}))
        return msg
    if kind == "ObjectUpdateCompressed":
        handle, full, local, parent, pcode, crc = a
        return Message(
            "ObjectUpdateCompressed",
            Block("RegionData", RegionHandle=handle, TimeDilation=123),
            Block("ObjectData", UpdateFlags=UPDATE_FLAGS, Data=compressed_data(full, local, parent, crc, pcode)))
    if kind == "ImprovedTerseObjectUpdate":
        handle, local = a
        return Message(
            "ImprovedTerseObjectUpdate",
            Block("RegionData", RegionHandle=handle, TimeDilation=123),
            Block("ObjectData", Data_={
                'ID': local, 'State': 0, 'FootCollisionPlane': None, 'Position': Vector3(1.0, 2.0, 3.0),
                'Velocity': Vector3(0.0, 0.0, 0.0), 'Acceleration': Vector3(0.0, 0.0, 0.0),
                'Rotation': Quaternion(0.0, 0.0, 0.0, 1.0), 'AngularVelocity': Vector3(0.0, 0.0, 0.0)},
                TextureEntry_=None))
    if kind == "ObjectUpdateCached":
        handle, local, crc = a
        return Message(
            "ObjectUpdateCached",
            Block("RegionData", RegionHandle=handle, TimeDilation=123),
            Block("ObjectData", ID=local, CRC=crc, UpdateFlags=UPDATE_FLAGS))
    if kind == "ObjectProperties":
        (full,) = a
        return Message("ObjectProperties",
                       Block("ObjectData", ObjectID=full, Name="Foobar", Description="desc", TextureID=b"",
                             fill_missing=True))
    if kind == "ObjectPropertiesFamily":
        (full,) = a
        return Message("ObjectPropertiesFamily",
                       Block("ObjectData", ObjectID=full, Name="Foobar", Description="desc", fill_missing=True))
    if kind == "KillObject":
        return Message("KillObject", *[Block("ObjectData", ID=x) for x in a])
    raise KeyError(kind)


def wire(kind: str, *a) -> bytes:
    key = (kind,) + a
    b = _WIRE.get(key)
    if b is None:
        for attempt in range(5):
            try:
                b = _WIRE[key] = bytes(_SER.serialize(_build(kind, *a)))
                break
            except OSError:
                # Message() stats templates.py (maybe_reload_templates); the file can be missing for an instant while
                # someone else rewrites the repository. Environment trouble, never a finding.
                if attempt == 4:
                    raise HarnessError("library files unreadable while building a message")
                time.sleep(0.1)
    return b


def parse(region, data: bytes) -> Message:
    """Datagram -> Message through the real deserializer (errors here are harness errors, not findings)."""
    msg = _DESER.deserialize(data)
    msg.sender = region.circuit_addr
    return msg


# ---- swallowed exceptions ---------------------------------------------------------------------------------------
def exception_site(exc: BaseException) -> str:
    """Innermost frame inside the library (qualified function name) + exception type (+ missing attribute)."""
    site = "?"
    for frame, _ in traceback.walk_tb(exc.__traceback__):
        fn = frame.f_code.co_filename
        if "/hippolyzer/" in fn:
            site = getattr(frame.f_code, "co_qualname", frame.f_code.co_name)
    extra = type(exc).__name__
    if isinstance(exc, AttributeError) and getattr(exc, "name", None):
        extra += f"({exc.name})"
    return f"{site}:{extra}"


class SwallowRecorder:
    """Replacement for ``events.LOG``: ``Event.notify`` reports a failing subscriber through ``LOG.exception``."""

    def __init__(self):
        self.raised: List[Dict[str, str]] = []

    def exception(self, msg, *a, **kw):
        exc = sys.exc_info()[1]
        if exc is not None:
            self.raised.append({"site": exception_site(exc), "detail": f"{msg}: {exc!r}"})

    def _noop(self, *a, **kw):
        pass

    debug = info = warning = error = critical = log = _noop


class _CheapMP:
    """`multiprocessing` as seen by sessions.py: only ``Event`` is used (shutdown signal, never touched here)."""
    Event = threading.Event


_ENV_PATCHED = False


def patch_environment():
    global _ENV_PATCHED
    if _ENV_PATCHED:
        return
    sessions_mod.multiprocessing = _CheapMP
    sessions_mod.HTTPFlowContext = lambda: None
    inv_mod.iter_viewer_cache_dirs = lambda: []
    _ENV_PATCHED = True


class LiveWorld:
    """The real objects of one replay."""
    __slots__ = ("loop", "session_manager", "session", "regions", "transport", "recorder", "vo_entries")


def build_world(nregions: int, vo_entries, settings: Optional[Dict[str, Any]] = None) -> LiveWorld:
    """``vo_entries(region_index) -> [ViewerObjectCacheEntry]`` describes the viewer's object cache for a region."""
    patch_environment()
    lw = LiveWorld()
    lw.loop = vloop.VLoop()
    vloop.install(lw.loop, clock_modules=[circuit_mod])
    lw.recorder = SwallowRecorder()
    events_mod.LOG = lw.recorder
    # class-level addon state: no addons, nothing left over from a previous replay
    AddonManager.FRESH_ADDON_MODULES.clear()
    AddonManager.BASE_ADDON_SPECS.clear()
    AddonManager.SESSION_MANAGER = None
    AddonManager._SUBPROCESS = False
    ps = ProxySettings()
    for k, v in (settings or {}).items():
        setattr(ps, k, v)
    lw.session_manager = sessions_mod.SessionManager(ps)
    hx, hy = HANDLES[0] >> 32, HANDLES[0] & 0xFFFFFFFF
    lw.session = lw.session_manager.create_session({
        "session_id": UUID(int=0x51), "secure_session_id": UUID(int=0x52), "agent_id": UUID(int=0x53),
        "circuit_code": 1234, "sim_ip": ADDRS[0][0], "sim_port": ADDRS[0][1],
        "region_x": hx, "region_y": hy, "seed_capability": "https://test.localhost:4/foo"})
    lw.transport = MockTransport()
    lw.session_manager.claim_session(lw.session.id)
    for i in range(1, nregions):
        lw.session.register_region(ADDRS[i], f"https://localhost:{5 + i}", HANDLES[i])
    lw.regions = list(lw.session.regions)
    lw.vo_entries = vo_entries

    def _for_region(handle, cache_id, cache_dir=None):
        idx = HANDLES.index(handle)
        return RegionViewerObjectCacheChain([RegionViewerObjectCache(cache_id, list(vo_entries(idx)))])

    vocache_mod.RegionViewerObjectCacheChain.for_region = staticmethod(_for_region)
    for region in lw.regions:
        connect_region(lw, region)
    lw.session.main_region = lw.regions[0]
    return lw


def connect_region(lw: LiveWorld, region):
    """What UseCircuitCode + RegionHandshake do in ``InterceptingLLUDPProxyProtocol.handle_proxied_packet``."""
    lw.session.open_circuit(CLIENT_ADDR, region.circuit_addr, lw.transport)
    lw.session.objects.track_region_objects(region.handle)
    if lw.session_manager.settings.USE_VIEWER_OBJECT_CACHE:
        region.objects.load_cache()


def deliver(lw: LiveWorld, region, data: bytes):
    """Simulator -> proxy datagram, handled like tests' WrappingMessageHandler (session handler, then region handler)."""
    msg = parse(region, data)
    lw.session.message_handler.handle(msg)
    region.message_handler.handle(msg)
    return msg

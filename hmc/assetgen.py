"""Case generators, builders and plain-Python reference helpers for C20 (inventory / animation / mesh / transfer codecs).

Everything here is *enumeration*: every generator walks a finite cross product (or an each-choice rotation over value
alphabets) in a fixed order.  Case specs are JSON-able dicts (UUIDs as strings, enums as ints, dates as integer epoch
seconds, quantised members as their integer wire value) so that a witness can be rebuilt by ``props.c20_asset_codecs.replay``.
"""
from __future__ import annotations

import datetime as dt
import itertools
import struct
from typing import Any, Dict, Iterator, List, Optional, Tuple

ZERO = "00000000-0000-0000-0000-000000000000"


def uid(n: int) -> str:
    return "%08x-1111-4222-8333-%012x" % (n & 0xFFFFFFFF, n)


def f32(x: float) -> float:
    return struct.unpack("<f", struct.pack("<f", x))[0]


def pick(alphabet, k: int):
    return alphabet[k % len(alphabet)]


# =====================================================================================================================
# INVENTORY
# =====================================================================================================================
# Names from the *format's* domain: the line-oriented schema cannot carry tab / CR / LF / '|' nor leading or trailing
# whitespace (stated bound).  Interior whitespace, empty names, brace / keyword look-alikes and non-ASCII are in.
NAMES = ["", "a", "New Script", "a  b", "Ünï ✓", "{", "}", "inv_item 0", "type\\lsltext", "#<llsd>&\"'", "x" * 70]
DESCS = ["", "2020-04-20 04:20:39 lsl2 script", "(No Description)", "désc", "}"]
DATES = [0, 1, 1587367239, 2 ** 31 + 5, 4102444800]
FLAGS = [0, 1, 0x00100000, 0x7FFFFFFF, 0x80000000, 0xFFFFFFFF, 0x12345678]
MASKS = [0, 0x0008E000, 0x7FFFFFFF, 0x80000000, 0xFFFFFFFF, 0x00082000]
PRICES = [0, 10, 2 ** 31 - 1, -1]
VERSIONS = [-1, 0, 1, 77]
OWNER_GROUP = [0, 1]
N_META = 4   # index 0 = None


def metadata(idx: Optional[int]):
    """Embedded metadata LLSD {none, empty map, one-key map, nested map}; string members stay inside the format's domain."""
    from hippolyzer.lib.base.datatypes import UUID
    if not idx:
        return None
    if idx == 1:
        return {}
    if idx == 2:
        return {"experience": UUID(uid(0xE0))}
    return {"k": 1, "s": "a  b", "r": 1.5, "t": True, "n": {"x": [1, 2], "u": UUID(uid(0xE1))}, "neg": -7}


def enum_values(cls) -> List[int]:
    return [int(m) for m in cls]


def _enums():
    from hippolyzer.lib.base.templates import AssetType, FolderType, InventoryType, SaleType
    return AssetType, InventoryType, FolderType, SaleType


def perms_spec(k: int, iog: Optional[int] = None) -> Dict[str, Any]:
    return {"masks": [pick(MASKS, k + i) for i in range(5)], "ids": [uid(0xA0 + (k + i) % 3) if (k + i) % 4 else ZERO for i in range(4)],
            "iog": iog}


AIS_LINK_PERMS = {"masks": [0xFFFFFFFF, 0xFFFFFFFF, 0xFFFFFFFF, 0, 0xFFFFFFFF], "ids": [ZERO, ZERO, ZERO, ZERO], "iog": None}
AIS_LINK_SALE = [0, 0]
LINK = 24
CATEGORY = 8
ENSEMBLE = (26, 45)   # FolderType.ENSEMBLE_START / ENSEMBLE_END: one lookup name ("ensemble") for two members


def restrict(spec: Dict[str, Any], flavor: str) -> Dict[str, Any]:
    """Fields a flavour cannot carry are set to that flavour's default (DESIGN C20); returns a new spec."""
    s = dict(spec)
    k = s["k"]
    if flavor == "text":
        if k == "category":
            s["version"] = -1                       # llsd_only
        if k == "item":
            s["perm"] = dict(s["perm"], iog=None)   # llsd_only
    if flavor in ("text", "legacy") and k == "category" and s["pref_type"] in ENSEMBLE:
        s["pref_type"] = 47                         # the lookup-name format has one name for both; checked at enum level
    if flavor == "ais":
        if k == "category":
            s["type"] = CATEGORY                    # AIS categories carry no asset type
        if k == "item" and s.get("type") == LINK:
            s["perm"] = dict(AIS_LINK_PERMS)        # AIS links carry neither permissions nor sale info
            s["sale"] = list(AIS_LINK_SALE)
            if s.get("asset_id") is None:
                s["asset_id"] = uid(0xBEEF)         # a link always has a target
    return s


def build_perms(p):
    from hippolyzer.lib.base.datatypes import UUID
    from hippolyzer.lib.base.inventory import InventoryPermissions
    m, i = p["masks"], p["ids"]
    return InventoryPermissions(base_mask=m[0], owner_mask=m[1], group_mask=m[2], everyone_mask=m[3], next_owner_mask=m[4],
                                creator_id=UUID(i[0]), owner_id=UUID(i[1]), last_owner_id=UUID(i[2]), group_id=UUID(i[3]),
                                is_owner_group=p.get("iog"))


def build_sale(s):
    from hippolyzer.lib.base.inventory import InventorySaleInfo
    from hippolyzer.lib.base.templates import SaleType
    return None if s is None else InventorySaleInfo(sale_type=SaleType(s[0]), sale_price=s[1])


def build_node(s: Dict[str, Any]):
    from hippolyzer.lib.base.datatypes import UUID
    from hippolyzer.lib.base.inventory import InventoryCategory, InventoryItem, InventoryObject
    AssetType, InventoryType, FolderType, _ = _enums()

    def u(x):
        return None if x is None else UUID(x)

    def date(x):
        return None if x is None else dt.datetime(1970, 1, 1) + dt.timedelta(seconds=x)

    k = s["k"]
    if k == "category":
        return InventoryCategory(cat_id=UUID(s["id"]), parent_id=u(s["parent"]), type=AssetType(s["type"]),
                                 pref_type=FolderType(s["pref_type"]), name=s["name"], owner_id=u(s.get("owner_id")),
                                 version=s.get("version", -1), metadata=metadata(s.get("meta")))
    if k == "object":
        return InventoryObject(obj_id=UUID(s["id"]), parent_id=u(s["parent"]), type=AssetType(s["type"]), name=s["name"],
                               metadata=metadata(s.get("meta")))
    t, it = s.get("type"), s.get("inv_type")
    return InventoryItem(item_id=UUID(s["id"]), parent_id=u(s["parent"]), permissions=build_perms(s["perm"]),
                         asset_id=u(s.get("asset_id")), shadow_id=u(s.get("shadow_id")),
                         type=None if t is None else AssetType(t), inv_type=None if it is None else InventoryType(it),
                         flags=s.get("flags"), sale_info=build_sale(s.get("sale")), name=s.get("name"), desc=s.get("desc"),
                         metadata=metadata(s.get("meta")), creation_date=date(s.get("date")))


ITEM_OPTIONAL = ("asset_id", "shadow_id", "type", "inv_type", "flags", "sale", "name", "desc", "date", "iog")


def item_spec(present: int, meta: int, k: int, ident: int = 0x10, parent: str = None, force_type: Optional[int] = None) -> Dict[str, Any]:
    """An item with exactly the optional fields of bit set `present` (order ITEM_OPTIONAL) and values rotated by k."""
    AssetType, InventoryType, _, SaleType = _enums()
    at, it, st = enum_values(AssetType), enum_values(InventoryType), enum_values(SaleType)
    has = {n: bool(present >> i & 1) for i, n in enumerate(ITEM_OPTIONAL)}
    s: Dict[str, Any] = {"k": "item", "id": uid(ident), "parent": parent if parent is not None else uid(0x01),
                         "perm": perms_spec(k, pick(OWNER_GROUP, k) if has["iog"] else None), "meta": meta}
    s["asset_id"] = uid(0xC0 + k % 5) if has["asset_id"] else None
    s["shadow_id"] = uid(0xD0 + k % 3) if has["shadow_id"] else None
    s["type"] = (force_type if force_type is not None else pick(at, k)) if has["type"] else None
    s["inv_type"] = pick(it, k // 2 + k) if has["inv_type"] else None
    s["flags"] = pick(FLAGS, k) if has["flags"] else None
    s["sale"] = [pick(st, k), pick(PRICES, k // 3 + k)] if has["sale"] else None
    s["name"] = pick(NAMES, k) if has["name"] else None
    s["desc"] = pick(DESCS, k // 5 + k) if has["desc"] else None
    s["date"] = pick(DATES, k) if has["date"] else None
    return s


ALL_ITEM = (1 << len(ITEM_OPTIONAL)) - 1


def item_cases(rotations: int) -> Iterator[Dict[str, Any]]:
    """Full cross product of optional-field presence (2^10) x metadata {none, {}, map, nested map}; values rotate so every
    AssetType / InventoryType / SaleType member and every name / flag / date alphabet element occurs; plus one
    all-fields row per enum member (each-choice)."""
    AssetType, InventoryType, _, SaleType = _enums()
    for rot in range(rotations):
        k = rot * 7919
        for present in range(1 << len(ITEM_OPTIONAL)):
            for meta in range(N_META):
                yield item_spec(present, meta, k)
                k += 1
    for i, t in enumerate(enum_values(AssetType)):
        s = item_spec(ALL_ITEM, 2, i, force_type=t)
        yield s
    for i, t in enumerate(enum_values(InventoryType)):
        s = item_spec(ALL_ITEM, 3, i)
        s["inv_type"] = t
        yield s
    for i, t in enumerate(enum_values(SaleType)):
        for price in PRICES:
            s = item_spec(ALL_ITEM, 0, i)
            s["sale"] = [t, price]
            yield s
    # links (ordinary fields; AIS restricts them in `restrict`)
    for present in range(1 << len(ITEM_OPTIONAL)):
        if present >> 2 & 1:
            yield item_spec(present, present % N_META, present, force_type=LINK)


def category_spec(t: int, pt: int, owner: bool, version: int, meta: int, k: int, ident: int = 0x20, parent: str = ZERO):
    return {"k": "category", "id": uid(ident), "parent": parent, "type": t, "pref_type": pt, "name": pick(NAMES, k),
            "owner_id": uid(0xA0 + k % 3) if owner else None, "version": version, "meta": meta}


def category_cases(full: bool) -> Iterator[Dict[str, Any]]:
    """quick: every FolderType and every AssetType member (each-choice) x all optional-field combinations;
    thorough: FolderType x AssetType cross product x all optional-field combinations."""
    AssetType, _, FolderType, _ = _enums()
    at, ft = enum_values(AssetType), enum_values(FolderType)
    opt = list(itertools.product((False, True), VERSIONS[:2] if not full else VERSIONS, range(N_META)))
    k = 0
    if full:
        for t in at:
            for pt in ft:
                for owner, version, meta in opt:
                    yield category_spec(t, pt, owner, version, meta, k)
                    k += 1
    else:
        for i in range(max(len(at), len(ft))):
            for owner, version, meta in opt:
                yield category_spec(pick(at, i), pick(ft, i), owner, version, meta, k)
                k += 1
    for name in NAMES:
        yield dict(category_spec(CATEGORY, -1, True, 3, 2, 0), name=name)


def object_cases() -> Iterator[Dict[str, Any]]:
    AssetType, _, _, _ = _enums()
    k = 0
    for t in enum_values(AssetType):
        for meta in range(N_META):
            yield {"k": "object", "id": uid(0x30), "parent": ZERO if k % 2 else uid(0x02), "type": t, "name": pick(NAMES, k), "meta": meta}
            k += 1
    for name in NAMES:
        yield {"k": "object", "id": uid(0x30), "parent": ZERO, "type": CATEGORY, "name": name, "meta": 0}


def null_parent_cases() -> Iterator[Dict[str, Any]]:
    """parent_id is declared Optional[UUID]: one node of each kind with parent_id None (own family, own violation site)."""
    yield dict(category_spec(CATEGORY, -1, True, 1, 0, 1), parent=None)
    yield {"k": "object", "id": uid(0x30), "parent": None, "type": CATEGORY, "name": "Contents", "meta": 0}
    yield dict(item_spec(ALL_ITEM, 2, 3), parent=None)


# ---- model level ----------------------------------------------------------------------------------------------------
NODE_KINDS = ("category", "object", "item", "link")
PROFILES = ("min", "full", "mixed")


def model_node(kind: str, profile: str, idx: int, parent: str, link_target: str) -> Dict[str, Any]:
    """Node `idx` of a model: ids are distinct per position; names collide on purpose across nodes."""
    ident = 0x100 + idx
    k = {"min": 0, "full": 5 + idx, "mixed": 11 + 3 * idx}[profile]
    if kind == "category":
        if profile == "min":
            return category_spec(CATEGORY, -1, False, -1, 0, 1, ident, parent)
        if profile == "full":
            return category_spec(CATEGORY, 8 if parent == ZERO else 47, True, 7, 3, 1, ident, parent)
        return category_spec(10, 10, True, -1, 1, 2, ident, parent)
    if kind == "object":
        return {"k": "object", "id": uid(ident), "parent": parent, "type": CATEGORY if profile != "mixed" else 6,
                "name": "Contents" if profile != "mixed" else pick(NAMES, 1), "meta": {"min": 0, "full": 2, "mixed": 1}[profile]}
    present = {"min": 0b100, "full": ALL_ITEM, "mixed": 0b0101101101}[profile]   # items in models always carry a type
    if kind == "link":
        present |= 0b101   # asset_id + type
        s = item_spec(present, {"min": 0, "full": 3, "mixed": 2}[profile], k, ident, parent, force_type=LINK)
        s["asset_id"] = link_target
        return s
    s = item_spec(present, {"min": 0, "full": 2, "mixed": 1}[profile], k, ident, parent)
    if s.get("type") == LINK:
        s["type"] = 10
    if s.get("name") is not None:
        s["name"] = pick(NAMES, 1)   # same name as other nodes (collision on purpose)
    return s


def model_cases(full: bool) -> Iterator[Dict[str, Any]]:
    """Every sequence of <= 3 node kinds over {category, object, item, link}; node 0 hangs off the null parent, node i>0
    off the null parent or node i-1; links point at node 0 (or at themselves' predecessor) so ids collide with asset ids.
    quick: field profiles rotate (all-min, all-full, mixed rotation); thorough: full profile cross product."""
    yield {"nodes": []}
    for n in (1, 2, 3):
        for kinds in itertools.product(NODE_KINDS, repeat=n):
            for parents in itertools.product((0, 1), repeat=n - 1):
                if full:
                    profs = list(itertools.product(PROFILES, repeat=n))
                else:
                    profs = [("min",) * n, ("full",) * n, tuple(PROFILES[(i + len(kinds[0])) % 3] for i in range(n)),
                             tuple(PROFILES[(2 * i + 1) % 3] for i in range(n))]
                    profs = list(dict.fromkeys(profs))
                for prof in profs:
                    nodes = []
                    for i, kind in enumerate(kinds):
                        parent = ZERO if i == 0 or not parents[i - 1] else uid(0x100 + i - 1)
                        target = uid(0x100) if i else uid(0x1FF)
                        nodes.append(model_node(kind, prof[i], i, parent, target))
                    yield {"nodes": nodes}


# ---- wearables ------------------------------------------------------------------------------------------------------
WEARABLE_NAMES = ["New Shape", "Girl Next Door - C2 - med - Adam n Eve", "a", "Ünï ✓", "x  y"]
PARAM_IDS = [1, 2, 841, 33, 80]
PARAM_VALUES = [-0.21, 0.0, 1.0, 0.5, -1.06, 1e-07, 100.0]
TEXTURE_IDS = [0, 5, 11, 20]


def wearable_cases(full: bool) -> Iterator[Dict[str, Any]]:
    from hippolyzer.lib.base.templates import SaleType, WearableType
    k = 0
    for wt in enum_values(WearableType):
        for np_ in (0, 1, 3):
            for nt in (0, 1, 3):
                for name in (WEARABLE_NAMES if full else [pick(WEARABLE_NAMES, k)]):
                    yield {"name": name, "type": wt, "perm": perms_spec(k), "sale": [pick(enum_values(SaleType), k), pick(PRICES, k)],
                           "params": [[pick(PARAM_IDS, k + i), pick(PARAM_VALUES, k + 2 * i)] for i in range(np_)],
                           "textures": [[pick(TEXTURE_IDS, k + i), uid(0x70 + (k + i) % 4)] for i in range(nt)]}
                    k += 1


def build_wearable(s):
    from hippolyzer.lib.base.datatypes import UUID
    from hippolyzer.lib.base.templates import WearableType
    from hippolyzer.lib.base.wearables import Wearable
    return Wearable(name=s["name"], wearable_type=WearableType(s["type"]), permissions=build_perms(s["perm"]),
                    sale_info=build_sale(s["sale"]), parameters={int(a): float(b) for a, b in s["params"]},
                    textures={int(a): UUID(b) for a, b in s["textures"]})


# =====================================================================================================================
# ANIMATIONS (reference wire layout, written out with struct; independent of hippolyzer.lib.base.serialization)
# =====================================================================================================================
U16S = [0, 1, 0x7FFF, 0x8000, 0xFFFF, 0x1234, 0xABCD, 0x7FFE, 0x8001]
F32S = [0.0, 1.0, -1.0, 0.5, 0.25, -0.125, f32(1.6333), f32(0.2), 3.0]
UNIT3 = [(0.0, 0.0, 0.0), (0.5, 0.5, 0.5), (1.0, 0.0, 0.0), (-0.5, 0.25, 0.125), (f32(0.1), f32(-0.2), f32(0.3)), (0.0, -1.0, 0.0)]
DURATIONS = [f32(1.6333), 1.0, 60.0, f32(0.001), 0.0]
JOINT_NAMES = ["mPelvis", "mHead", "", "mé"]
EMOTES = ["", "express_smile", "ém"]
VOLUMES = ["", "mPelvis", "ABCDEFGHIJKLMNOP", "L Hand"]
N_HAND_POSES = 14
VERSIONS_ANIM = ((0, 1), (1, 0))


def anim_spec(ver, joint_shapes, n_constraints: int, hand_pose: int, k: int, same_names: bool = False) -> Dict[str, Any]:
    """joint_shapes = [(n_rot_keyframes, n_pos_keyframes), ...].  For version (1,0) time/rot/pos members are U16 wire
    values (wire-first: values on the grid by construction); for (0,1) they are f32-exact floats."""
    quant = tuple(ver) == (1, 0)
    duration = pick(DURATIONS, k)
    joints = []
    c = k
    for ji, (nr, npos) in enumerate(joint_shapes):
        rots, poss = [], []
        for i in range(nr):
            if quant:
                t = 0 if duration == 0.0 else pick(U16S, c)
                rots.append([t, [pick(U16S, c + 1), pick(U16S, c + 2), pick(U16S, c + 4)]])
            else:
                rots.append([pick(F32S, c), list(pick(UNIT3, c))])
            c += 1
        for i in range(npos):
            if quant:
                t = 0 if duration == 0.0 else pick(U16S, c + 3)
                poss.append([t, [pick(U16S, c), pick(U16S, c + 5), pick(U16S, c + 7)]])
            else:
                poss.append([pick(F32S, c + 3), [pick(F32S, c), pick(F32S, c + 2), pick(F32S, c + 4)]])
            c += 1
        joints.append({"name": pick(JOINT_NAMES, 0 if same_names else k + ji), "priority": pick([0, 4, -1, 2 ** 31 - 1], k + ji),
                       "rot": rots, "pos": poss})
    cons = []
    for i in range(n_constraints):
        cons.append({"chain_length": pick([0, 1, 255], k), "type": (k + i) % 2, "source_volume": pick(VOLUMES, k),
                     "source_offset": list(pick(UNIT3, k + 1)), "target_volume": pick(VOLUMES, k + 1),
                     "target_offset": list(pick(UNIT3, k + 2)), "target_dir": list(pick(UNIT3, k + 3)),
                     "ease": [pick(F32S, k), pick(F32S, k + 1), pick(F32S, k + 2), pick(F32S, k + 3)]})
    return {"ver": list(ver), "base_priority": pick([0, 4, -1, 6], k), "duration": duration, "emote": pick(EMOTES, k),
            "loop_in": pick(F32S, k), "loop_out": pick(F32S, k + 1), "loop": k % 2, "ease_in": pick(F32S, k + 2),
            "ease_out": pick(F32S, k + 3), "hand_pose": hand_pose, "joints": joints, "constraints": cons}


def joint_structures() -> List[Tuple[List[Tuple[int, int]], bool]]:
    kf = list(itertools.product(range(3), range(3)))
    out: List[Tuple[List[Tuple[int, int]], bool]] = [([], False)]
    out += [([a], False) for a in kf]
    out += [([a, b], same) for a in kf for b in kf for same in (False, True)]
    return out


def anim_cases(full: bool) -> Iterator[Dict[str, Any]]:
    """versions {(0,1),(1,0)} x joints 0-2 (each with 0-2 rotation and 0-2 position keyframes, two-joint cases with distinct
    and with *equal* joint names) x constraints 0-1; hand pose and values rotate (quick) / every hand pose (thorough)."""
    k = 0
    for ver in VERSIONS_ANIM:
        for shapes, same in joint_structures():
            for nc in (0, 1):
                poses = range(N_HAND_POSES) if full else [k % N_HAND_POSES, (k + 7) % N_HAND_POSES]
                for hp in poses:
                    yield anim_spec(ver, shapes, nc, hp, k, same)
                    k += 1


def _cstr(s: str) -> bytes:
    return s.encode("utf8") + b"\x00"


def _fixed16(s: str) -> bytes:
    b = s.encode("utf8")
    assert len(b) <= 16
    return b + b"\x00" * (16 - len(b))


def anim_wire(s: Dict[str, Any]) -> bytes:
    quant = tuple(s["ver"]) == (1, 0)
    out = [struct.pack("<HHif", s["ver"][0], s["ver"][1], s["base_priority"], s["duration"]), _cstr(s["emote"]),
           struct.pack("<ffiffI", s["loop_in"], s["loop_out"], s["loop"], s["ease_in"], s["ease_out"], s["hand_pose"]),
           struct.pack("<I", len(s["joints"]))]
    for j in s["joints"]:
        out.append(_cstr(j["name"]) + struct.pack("<i", j["priority"]))
        for key in ("rot", "pos"):
            out.append(struct.pack("<i", len(j[key])))
            for t, v in j[key]:
                out.append(struct.pack("<HHHH", t, *v) if quant else struct.pack("<ffff", t, *v))
    out.append(struct.pack("<i", len(s["constraints"])))
    for c in s["constraints"]:
        out.append(struct.pack("<BB", c["chain_length"], c["type"]) + _fixed16(c["source_volume"]) + struct.pack("<fff", *c["source_offset"])
                   + _fixed16(c["target_volume"]) + struct.pack("<fff", *c["target_offset"]) + struct.pack("<fff", *c["target_dir"])
                   + struct.pack("<ffff", *c["ease"]))
    return b"".join(out)


def dequant(u: int, lower: float, upper: float) -> float:
    return lower + (u / 65535.0) * (upper - lower)


def grid_values(full: bool) -> List[int]:
    """U16 grid sweep: every wire value (thorough) / every 16th plus the neighbourhood of both ends and of the middle (quick)."""
    if full:
        return list(range(65536))
    vals = set(range(0, 65536, 16)) | set(range(0, 8)) | set(range(65528, 65536)) | set(range(32760, 32776))
    return sorted(vals)


def anim_grid_cases(full: bool, per_anim: int = 2048) -> Iterator[Dict[str, Any]]:
    """One joint whose keyframes sweep the U16 grid of one quantised member (the other members stay fixed)."""
    vals = grid_values(full)
    for member in ("rot", "pos", "time"):
        durations = [f32(1.6333), 60.0, f32(0.001)] if member == "time" else [1.0]
        for dur in durations:
            for off in range(0, len(vals), per_anim):
                yield {"grid": member, "duration": dur, "values": [vals[off], vals[min(off + per_anim, len(vals)) - 1]],
                       "offset": off, "count": min(per_anim, len(vals) - off), "full": full}


def anim_grid_spec(g: Dict[str, Any]) -> Dict[str, Any]:
    vals = grid_values(g["full"])[g["offset"]:g["offset"] + g["count"]]
    rots, poss = [], []
    for i, u in enumerate(vals):
        a, b = vals[(i * 7 + 3) % len(vals)], vals[(i * 13 + 5) % len(vals)]
        if g["grid"] == "rot":
            rots.append([0x1234, [u, a, b]])
        elif g["grid"] == "pos":
            poss.append([0x1234, [u, a, b]])
        else:
            rots.append([u, [0x7FFF, 0x8000, 0xFFFF]])
            poss.append([u, [0, 0x7FFF, 0x8000]])
    return {"ver": [1, 0], "base_priority": 4, "duration": g["duration"], "emote": "", "loop_in": 0.0, "loop_out": 0.0, "loop": 0,
            "ease_in": 0.0, "ease_out": 0.0, "hand_pose": 1, "joints": [{"name": "mPelvis", "priority": 4, "rot": rots, "pos": poss}],
            "constraints": []}


# =====================================================================================================================
# MESH
# =====================================================================================================================
LODS = ("lowest_lod", "low_lod", "medium_lod", "high_lod")
SEGMENT_KINDS = LODS + ("physics_mesh", "physics_convex", "skin", "physics_havok", "x_unknown_segment")
WEIGHT_JOINTS = [0, 1, 254, 7]
WEIGHT_U16 = [0xFFFF, 0, 1, 0x7FFF, 0x8000, 0x1234]


def material_spec(nv: int, ntri: int, weights: Optional[List[int]], k: int, nogeo: bool = False) -> Dict[str, Any]:
    if nogeo:
        return {"nogeo": True}
    return {"nogeo": False, "nv": nv, "ntri": ntri, "weights": weights, "k": k, "normal": bool(k % 3), "tex": bool((k + 1) % 4)}


def material_raw(ms: Dict[str, Any]) -> Dict[str, Any]:
    """Raw (wire-form) LOD material: quantised arrays are given as their little-endian U16 / U8 bytes (wire-first)."""
    if ms["nogeo"]:
        return {"NoGeometry": True}
    nv, k = ms["nv"], ms["k"]
    pos = [pick(U16S, k + i) for i in range(nv * 3)]
    d: Dict[str, Any] = {}
    if ms["normal"]:
        d["Normal"] = struct.pack("<%dH" % (nv * 3), *[pick(U16S, k + 2 + i) for i in range(nv * 3)])
    d["Position"] = struct.pack("<%dH" % (nv * 3), *pos)
    d["PositionDomain"] = {"Max": [0.5, 0.5, pick(F32S, k)], "Min": [-0.5, -0.5, -1.0]}
    if ms["tex"]:
        d["TexCoord0"] = struct.pack("<%dH" % (nv * 2), *[pick(U16S, k + 4 + i) for i in range(nv * 2)])
        d["TexCoord0Domain"] = {"Max": [1.0, 1.0], "Min": [0.0, 0.0]}
    d["TriangleList"] = struct.pack("<%dH" % (ms["ntri"] * 3), *[(k + i) % max(nv, 1) for i in range(ms["ntri"] * 3)])
    if ms["weights"] is not None:
        d["Weights"] = weights_wire(material_weights(ms))
    return d


def material_weights(ms) -> List[List[Tuple[int, int]]]:
    out = []
    c = ms["k"]
    for ln in ms["weights"]:
        out.append([(pick(WEIGHT_JOINTS, c + i), pick(WEIGHT_U16, c + 2 * i)) for i in range(ln)])
        c += 1
    return out


def weights_wire(per_vertex: List[List[Tuple[int, int]]]) -> bytes:
    out = bytearray()
    for infl in per_vertex:
        for joint, w in infl:
            out += struct.pack("<BH", joint, w)
        if len(infl) != 4:
            out.append(0xFF)
    return bytes(out)


def convex_raw(k: int) -> Dict[str, Any]:
    n = k % 3 + 1
    d = {"BoundingVerts": struct.pack("<%dH" % (3 * n), *[pick(U16S, k + i) for i in range(3 * n)]),
         "Max": [0.5, 0.5, 0.5], "Min": [-0.5, -0.5, -0.5]}
    if k % 2:
        d["HullList"] = bytes([4, 4][: k % 3])
        d["Positions"] = struct.pack("<%dH" % 24, *[pick(U16S, k + 3 * i) for i in range(24)])
    return d


def skin_segment(k: int) -> Dict[str, Any]:
    ident = [1.0, 0.0, 0.0, 0.0, 0.0, 1.0, 0.0, 0.0, 0.0, 0.0, 1.0, 0.0, 0.25, -0.5, 0.125, 1.0]
    names = ["mPelvis", "mTorso", "mHead"][: k % 3 + 1]
    d = {"joint_names": names, "bind_shape_matrix": list(ident), "inverse_bind_matrix": [list(ident) for _ in names]}
    if k % 2:
        d["alt_inverse_bind_matrix"] = [list(reversed(ident)) for _ in names]
        d["pelvis_offset"] = 0.25
        d["lock_scale_if_joint_position"] = True
    return d


def havok_segment(k: int) -> Dict[str, Any]:
    return {"HullMassProps": {"CoM": [0.0, 0.5, 0.25], "inertia": [1.0] * 9, "mass": 2.5, "volume": 0.125},
            "MOPP": {"BuildType": k % 3, "MoppData": bytes(range(k % 7)), "MoppInfo": [0.0, 1.0, 2.0, 3.0]}, "WeldingData": b"\x00\x01\xff"}


def unknown_segment(k: int) -> Dict[str, Any]:
    return {"foo": k, "blob": bytes([k % 256, 0, 255]), "Position": "not a quantised array here", "list": [1, 2.5, "x"]}


def mesh_header_extras(idx: int) -> Dict[str, Any]:
    from hippolyzer.lib.base.datatypes import UUID
    d: Dict[str, Any] = {}
    if idx & 1:
        d["creator"] = UUID(uid(0x51))
        d["date"] = dt.datetime(2020, 4, 20, 4, 20, 39, tzinfo=dt.timezone.utc)
    if idx & 2:
        d["physics_cost_data"] = {"decomposition": 1.5, "decomposition_discounted_vertices": 3, "decomposition_hulls": 1, "hull": 0.25,
                                  "hull_discounted_vertices": 2.0, "mesh": [0.5] * 9, "mesh_triangles": 12}
    return d


def mesh_spec(kinds: List[str], materials: Dict[str, List[Dict[str, Any]]], k: int, extras: int = 0, reverse_header: bool = False,
              outer: str = "!", grid_full: bool = True) -> Dict[str, Any]:
    """grid_full: the case belongs to the quick-tier set; in the thorough tier these get the full reader x writer
    configuration grid in the edit-after-parse check, the remaining cases the reduced grid."""
    return {"kinds": list(kinds), "materials": materials, "k": k, "extras": extras, "reverse_header": reverse_header, "outer": outer,
            "grid_full": grid_full}


def default_materials(kinds: List[str], k: int) -> Dict[str, List[Dict[str, Any]]]:
    mats: Dict[str, List[Dict[str, Any]]] = {}
    c = k
    for kind in kinds:
        if kind in LODS or kind == "physics_mesh":
            nmat = 1 + c % 2
            lst = []
            for i in range(nmat):
                nv = pick([3, 1, 0], c + i)
                rig = kind in LODS and (c + i) % 2 == 0
                lst.append(material_spec(nv, pick([1, 0, 2], c), [pick(range(5), c + v) for v in range(nv)] if rig else None, c + i,
                                         nogeo=(c + i) % 5 == 4))
            mats[kind] = lst
            c += 1
    return mats


def build_mesh_raw(s: Dict[str, Any]):
    """MeshAsset whose template-covered members are in wire form (bytes); returns (asset, {kind: raw segment value})."""
    from hippolyzer.lib.base.mesh import MeshAsset
    header: Dict[str, Any] = {"version": 1}
    header.update(mesh_header_extras(s["extras"]))
    segs: Dict[str, Any] = {}
    k = s["k"]
    order = list(reversed(s["kinds"])) if s["reverse_header"] else list(s["kinds"])
    for kind in order:
        hdr: Dict[str, Any] = {"offset": 0, "size": 0}
        if kind == "lowest_lod" and k % 2:
            hdr["mesh_triangles"] = 12
        if kind in ("physics_convex", "physics_mesh") and k % 3 == 0:
            hdr["hash"] = bytes(range(16))
        if kind == "physics_havok":
            hdr["version"] = 1
        header[kind] = hdr
        if kind in LODS or kind == "physics_mesh":
            segs[kind] = [material_raw(m) for m in s["materials"][kind]]
        elif kind == "physics_convex":
            segs[kind] = convex_raw(k)
        elif kind == "skin":
            segs[kind] = skin_segment(k)
        elif kind == "physics_havok":
            segs[kind] = havok_segment(k)
        else:
            segs[kind] = unknown_segment(k)
    return MeshAsset(header=header, segments=segs), segs


def mesh_cases(full: bool) -> Iterator[Dict[str, Any]]:
    """(a) every subset of the 9 segment kinds (4 LODs, physics_mesh, physics_convex, skin, physics_havok, an unknown
    segment) with materials 1-2, vertex counts {0,1,3} and NoGeometry rotating; (b) every weight-length vector in
    {0..4}^nv for nv in {0,1,3} on a rigged LOD; (c) materials {1,2} x vertices {0,1,3} x triangles {0,1,2} x
    {Normal, TexCoord0} presence; header extras {none, creator+date, physics_cost_data, all}; header order canonical/reversed."""
    rots = range(6) if full else range(1)
    k = 0
    for rot in rots:
        for bits in range(1, 1 << len(SEGMENT_KINDS)):
            kinds = [kd for i, kd in enumerate(SEGMENT_KINDS) if bits >> i & 1]
            yield mesh_spec(kinds, default_materials(kinds, k + rot * 101), k + rot * 101, extras=k % 4, reverse_header=bool(k % 3 == 1),
                            outer="!" if k % 5 else "<", grid_full=rot == 0)
            k += 1
    k = 0
    for nv in (0, 1, 3):
        for lens in itertools.product(range(5), repeat=nv):
            for lod in (LODS if full else ("high_lod",)):
                yield mesh_spec([lod, "skin"], {lod: [material_spec(nv, 1, list(lens), k)]}, k, extras=0, grid_full=lod == "high_lod")
                k += 1
    for nmat in (1, 2):
        for nv in (0, 1, 3):
            for ntri in (0, 1, 2):
                for kk in range(12 if full else 4):
                    mats = [material_spec(nv if i == 0 else pick([3, 0, 1], kk), ntri, None, kk + i) for i in range(nmat)]
                    yield mesh_spec(["high_lod", "physics_mesh"], {"high_lod": mats, "physics_mesh": [material_spec(nv, ntri, None, kk)]},
                                    kk, extras=kk % 4, grid_full=kk < 4)
    yield mesh_spec([], {}, 0, extras=3)


def mesh_grid_cases(full: bool) -> Iterator[Dict[str, Any]]:
    for member in ("Position", "Normal", "TexCoord0", "Weights", "BoundingVerts"):
        yield {"grid": member, "full": full}


# =====================================================================================================================
# TRANSFERS
# =====================================================================================================================
def payload(n: int) -> bytes:
    """Position-dependent, non-periodic in the chunk size, so that misplaced / swapped / truncated chunks change the bytes."""
    return bytes(((i * 31 + (i >> 8) * 17 + (i >> 16) + 1) & 0xFF) for i in range(n))


def boundary_sizes(chunk: int, prefix: int, max_chunks: int = 4) -> List[int]:
    """Payload sizes around every chunk boundary up to max_chunks chunks (prefix = bytes the sender prepends)."""
    s = {0, 1}
    for m in range(1, max_chunks + 1):
        for d in (-1, 0, 1):
            v = m * chunk - prefix + d
            if v >= 0:
                s.add(v)
        s.add(m * chunk)
        s.add(m * chunk + 1)
    return sorted(x for x in s if 0 <= x and -(-(x + prefix) // chunk) <= max_chunks)


def arrival_sequences(n: int, extra: int = 2) -> Iterator[Tuple[int, ...]]:
    """Every arrival sequence of length n+extra over the n chunk indices (all orders, with duplicates); every shorter
    sequence is a prefix of one of them and the oracle is evaluated after every prefix."""
    return itertools.product(range(n), repeat=n + extra)

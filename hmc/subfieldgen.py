"""Derived value domains for subfield-serializer spec trees, integer alphabets, DST instants, TZ worker pool (C09).

Everything here is *generation* and *comparison*; no oracle.  The spec trees are the library's own objects (the
property quantifies over "values generated from each serializer's own template"), so the walker introspects their
private attributes.  An unknown node class raises ``UnknownSpec`` -- a new combinator must be taught here, it is never
skipped silently.

Generation scheme (bounded-exhaustive, deterministic, no randomness):
  * every node has a *base* value and a list of (value, tag) *variants*; leaves carry a small boundary alphabet,
    adapters are generated wire-first (child raw value -> ``adapter.decode``) so values lie on the adapter's grid;
  * composite nodes vary one child at a time (all other children at base), so the number of variants is the *sum* of
    the leaf alphabets and every variant has a tag naming the one leaf/structure that deviates from base -> specific
    violation sites;
  * flag fields read by ``OptionalFlagged`` siblings get *all subsets* of the referenced bits (bounded by ``subset_cap``
    bits, otherwise singletons/complements), base = all referenced bits set so every optional member is present in base
    and gets its own variants; members after a varied context field are regenerated under the new context.
"""
from __future__ import annotations

import dataclasses
import datetime
import itertools
import math
import os
import struct
import time
from typing import Any, Dict, Iterable, List, Optional, Sequence, Tuple

import lazy_object_proxy
import numpy as np

import hippolyzer.lib.base.datatypes as dtypes
import hippolyzer.lib.base.serialization as se

from hmc import introspect as ins
from hmc.introspect import IntrospectionError, priv, template_members  # noqa: F401  (re-exported for the property module)

INT_FMT = {"U8": "<B", "S8": "<b", "U16": "<H", "S16": "<h", "U32": "<I", "S32": "<i", "U64": "<Q", "S64": "<q"}
INT_BITS = {"U8": 8, "S8": 8, "U16": 16, "S16": 16, "U32": 32, "S32": 32, "U64": 64, "S64": 64}

F32_MAX = 3.4028234663852886e+38
F32_SUB = 1.401298464324817e-45


class UnknownSpec(Exception):
    pass


# ------------------------------------------------------------------------------------------------ integers
def int_range(wire: str) -> Tuple[int, int]:
    bits = INT_BITS[wire]
    if wire[0] == "S":
        return -(1 << (bits - 1)), (1 << (bits - 1)) - 1
    return 0, (1 << bits) - 1


def to_wire(wire: str, pattern: int) -> int:
    """Interpret an unsigned bit pattern as a value of the wire type (two's complement for signed types)."""
    bits = INT_BITS[wire]
    pattern &= (1 << bits) - 1
    if wire[0] == "S" and pattern >> (bits - 1):
        pattern -= 1 << bits
    return pattern


def int_alphabet(wire: str, members: Iterable[int] = (), complete_upto: int = 16) -> List[int]:
    """Complete domain for <= ``complete_upto``-bit types; boundary + every single bit + every all-but-one-bit +
    members, members +-1, OR of members (+ one foreign bit) otherwise.  Sorted, deduplicated, always inside the type."""
    lo, hi = int_range(wire)
    bits = INT_BITS[wire]
    if bits <= complete_upto:
        return list(range(lo, hi + 1))
    vals = {lo, lo + 1, lo + 2, hi, hi - 1, hi - 2, 0, 1, 2, 3}
    for b in (0x7F, 0x80, 0xFF, 0x100, 0x7FFF, 0x8000, 0xFFFF, 0x10000, 0x7FFFFFFF, 0x80000000, 0xFFFFFFFF, 0x100000000,
              0x7FFFFFFFFFFFFFFF, 0x8000000000000000):
        vals.add(b)
        vals.add(-b)
    members = [int(m) for m in members]
    allm = 0
    for m in members:
        vals.update((m, m - 1, m + 1))
        if m > 0:
            allm |= m
    if members:
        vals.add(allm)
        for i in range(bits):
            if not allm & (1 << i):
                vals.add(to_wire(wire, allm | (1 << i)))  # every member + one foreign bit (lowest, and the others below)
    for i in range(bits):
        vals.add(to_wire(wire, 1 << i))
        vals.add(to_wire(wire, ~(1 << i)))
        if i + 1 < bits:
            vals.add(to_wire(wire, 3 << i))
    return sorted(v for v in vals if lo <= v <= hi)


def small_int_alphabet(wire: str) -> List[int]:
    lo, hi = int_range(wire)
    bits = INT_BITS[wire]
    vals = [0, 1, hi, lo, 0x7F, 0x80, 0xFF, 0x100, 0x7FFF, 0x8000, 0xFFFF, 0x10000, 0x7FFFFFFF, 0x80000000, -1, hi - 1]
    vals += [to_wire(wire, 1 << (bits - 1))]
    out = []
    for v in vals:
        if lo <= v <= hi and v not in out:
            out.append(v)
    return out


def component_raws(wire: str) -> List[int]:
    lo, hi = int_range(wire)
    if INT_BITS[wire] == 8:
        return list(range(lo, hi + 1))
    mid = (lo + hi + 1) // 2
    out = []
    for v in [lo, lo + 1, mid - 1, mid, mid + 1, hi - 1, hi] + small_int_alphabet(wire):
        if lo <= v <= hi and v not in out:
            out.append(v)
    return out


def prim_wire(spec: se.SerializablePrimitive) -> str:
    return ins.prim_wire(spec)


def adapter_members(adapter: Any, depth: int = 0, bits: int = 0) -> List[int]:
    """Every enum/flag member value reachable from an adapter (used only to aim the 32/64-bit alphabets and the context
    candidates).  Bitfield adapters are laid out behaviourally (ins.bitfield_layout); ``bits`` = width of the wire type."""
    out: List[int] = []
    if adapter is None or depth > 4:
        return out
    for attr in ("enum_cls", "flag_cls"):
        cls = getattr(adapter, attr, None)
        if cls is not None:
            out += [int(m) for m in cls.__members__.values()]
    if isinstance(adapter, se.ContextAdapter):
        opts = priv(adapter, "_options", "spec-dict", default=None)
        if isinstance(opts, dict):
            for o in opts.values():
                out += adapter_members(o, depth + 1, bits)
    if isinstance(adapter, (se.BitField, se.BitfieldDataclass)):
        if not bits:
            child = ins.adapter_child(adapter)
            bits = child.calc_size() * 8 if child is not None else 0
        for name, low, mask, cls in ins.bitfield_layout(adapter, bits):
            one = adapter.decode(1 << low, ctx=None, pod=False)
            one = one[name] if isinstance(one, dict) else getattr(one, name)
            shifted = low == 0 or int(one) == 1
            if cls is not None:
                for m in cls.__members__.values():
                    out.append(int(m) << low if shifted else int(m))
            out.append(1 << low)
            out.append(mask)
    return out


# ------------------------------------------------------------------------------------------------ comparison
def unwrap(x: Any) -> Any:
    if isinstance(x, lazy_object_proxy.Proxy):
        return x.__wrapped__
    return x


def same(a: Any, b: Any) -> bool:
    """Structural equality that is NaN-safe, numpy-safe, lazy-proxy-safe (== semantics otherwise)."""
    a, b = unwrap(a), unwrap(b)
    if isinstance(a, np.ndarray) or isinstance(b, np.ndarray):
        return isinstance(a, np.ndarray) and isinstance(b, np.ndarray) and a.shape == b.shape and bool(np.array_equal(a, b))
    if isinstance(a, float) and isinstance(b, float):
        return a == b or (a != a and b != b)
    if isinstance(a, dict) and isinstance(b, dict):
        return a.keys() == b.keys() and all(same(v, b[k]) for k, v in a.items())
    if isinstance(a, (list, tuple)) and isinstance(b, (list, tuple)) and not isinstance(a, dtypes.TupleCoord) \
            and not isinstance(b, dtypes.TupleCoord):
        return isinstance(a, list) == isinstance(b, list) and len(a) == len(b) and all(same(x, y) for x, y in zip(a, b))
    if dataclasses.is_dataclass(a) and not isinstance(a, type):
        return type(a) is type(b) and all(same(getattr(a, f.name), getattr(b, f.name)) for f in dataclasses.fields(a))
    if isinstance(a, dtypes.TupleCoord) or isinstance(b, dtypes.TupleCoord):
        return type(a) is type(b) and same(tuple(a.data()), tuple(b.data()))
    if isinstance(a, dtypes.TaggedUnion) or isinstance(b, dtypes.TaggedUnion):
        return type(a) is type(b) and same(a.tag, b.tag) and same(a.value, b.value)
    try:
        return bool(a == b)
    except Exception:
        return False


def diff_path(a: Any, b: Any, depth: int = 0) -> str:
    """Path of the first member at which two decoded values differ (used to name violation sites)."""
    a, b = unwrap(a), unwrap(b)
    if depth > 8:
        return ""
    if dataclasses.is_dataclass(a) and not isinstance(a, type) and type(a) is type(b):
        a = {f.name: getattr(a, f.name) for f in dataclasses.fields(a)}
        b = {f.name: getattr(b, f.name) for f in dataclasses.fields(b)}
    if isinstance(a, dtypes.TaggedUnion) and isinstance(b, dtypes.TaggedUnion):
        a, b = {"tag": a.tag, "value": a.value}, {"tag": b.tag, "value": b.value}
    if isinstance(a, dict) and isinstance(b, dict):
        for k in a:
            if k not in b:
                return f"{k}(missing)"
            if not same(a[k], b[k]):
                sub = diff_path(a[k], b[k], depth + 1)
                return f"{k}.{sub}" if sub else str(k)
        return "(extra-keys)" if len(a) != len(b) else ""
    if isinstance(a, (list, tuple)) and isinstance(b, (list, tuple)) and not isinstance(a, dtypes.TupleCoord) \
            and not isinstance(b, dtypes.TupleCoord):
        if len(a) != len(b):
            return "(length)"
        for i, (x, y) in enumerate(zip(a, b)):
            if not same(x, y):
                sub = diff_path(x, y, depth + 1)
                return f"{i}.{sub}" if sub else str(i)
    return ""


def all_finite(x: Any) -> bool:
    x = unwrap(x)
    if isinstance(x, float):
        return math.isfinite(x)
    if isinstance(x, dict):
        return all(all_finite(k) and all_finite(v) for k, v in x.items())
    if isinstance(x, (list, tuple)):
        return all(all_finite(v) for v in x)
    return True


# ------------------------------------------------------------------------------------------------ spec domain
Variant = Tuple[Any, str]


def _uuid(n: int) -> dtypes.UUID:
    return dtypes.UUID(int=n)


UUIDS = [_uuid(0x0102030405060708090A0B0C0D0E0F10), _uuid(0), _uuid((1 << 128) - 1), _uuid(0x00FF00FF00FF00FF00FF00FF00FF00FF)]
F32S = [0.0, 1.0, -1.5, 0.5, F32_MAX, F32_SUB, -0.0]
F64S = [0.0, 1.0, -1.5, 1.7976931348623157e+308, 5e-324, -0.0]


class Domain:
    """Value domain of a spec tree by structural recursion (see module docstring)."""

    def __init__(self, thorough: bool, endianness: str = "<"):
        self.thorough = thorough
        self.endianness = endianness
        self.subset_cap = 11 if thorough else 4
        self.infinite = thorough
        self._memo: Dict[tuple, List[Variant]] = {}
        self._keep: List[Any] = []  # specs built on the fly must stay alive while their id() is a memo key

    # -- helpers
    def _leaf_decode(self, spec, raw: bytes):
        return se.BufferReader(self.endianness, raw).read(spec)

    def _ints(self, wire: str, sweep8: bool = False) -> List[int]:
        if sweep8 and INT_BITS[wire] == 8 and self.thorough:
            return int_alphabet(wire)
        return small_int_alphabet(wire)

    def base(self, spec, ctx=None) -> Any:
        return self.variants(spec, ctx)[0][0]

    # -- main dispatch
    def variants(self, spec, ctx=None, flag_bits: int = 0, only_size: Optional[int] = None) -> List[Variant]:
        """Variants of ``spec``; memoised per spec object unless the node itself reads the sibling context."""
        if spec is se.UNSERIALIZABLE:
            return []
        if isinstance(spec, (se.OptionalFlagged, se.ContextAdapter, se.ContextSwitch)):
            return self._variants(spec, ctx, flag_bits, only_size)
        key = (id(spec), flag_bits, only_size)
        got = self._memo.get(key)
        if got is None:
            got = self._memo[key] = self._variants(spec, ctx, flag_bits, only_size)
        return got

    def _variants(self, spec, ctx, flag_bits, only_size) -> List[Variant]:
        if isinstance(spec, type):  # class-level specs
            if spec is se.Null:
                return [(None, "null")]
            if spec is se.UUID:
                return [(u, f"uuid{i}") for i, u in enumerate(UUIDS)]
            if issubclass(spec, se.TupleCoord):
                return self._plain_coord(spec)
            meth = getattr(self, "_v_" + spec.__name__, None)
            if meth is None:
                raise UnknownSpec(f"no value domain for class-level spec {spec.__name__}")
            return meth(spec, ctx)
        if isinstance(spec, se.ForwardSerializable):
            return self.variants(ins.forward_target(spec), ctx, flag_bits, only_size)
        if isinstance(spec, se.EncodedTupleCoord):
            return self._encoded_coord(spec, ctx)
        if isinstance(spec, se.SerializablePrimitive):
            return self._prim(spec)
        if isinstance(spec, se.IntFlag):
            return self._v_IntFlag(spec, ctx, flag_bits)
        if isinstance(spec, se.LengthSwitch):
            return self._v_LengthSwitch(spec, ctx, only_size)
        for cls in type(spec).__mro__:
            meth = getattr(self, "_v_" + cls.__name__, None)
            if meth is not None:
                return meth(spec, ctx)
        raise UnknownSpec(f"no value domain for spec node {type(spec).__name__}: {spec!r}")

    # -- leaves
    def _prim(self, spec) -> List[Variant]:
        wire = prim_wire(spec)
        if wire == "F32":
            vals = list(F32S) + ([float("inf"), float("-inf")] if self.infinite else [])
            return [(v, f"f={v!r}") for v in vals]
        if wire == "F64":
            vals = list(F64S) + ([float("inf")] if self.infinite else [])
            return [(v, f"d={v!r}") for v in vals]
        return [(v, f"raw={v}") for v in self._ints(wire)]

    def _plain_coord(self, spec) -> List[Variant]:
        n = spec.NUM_ELEMS
        fl = F32S if spec.ELEM_SPEC is se.F32 else F64S
        rows = [tuple(fl[(k + i) % len(fl)] for i in range(n)) for k in range(len(fl))]
        rows[0] = tuple(0.0 for _ in range(n))
        if self.infinite:
            rows.append(tuple(float("inf") if i == 0 else 0.0 for i in range(n)))
        return [(r, f"vec{k}") for k, r in enumerate(rows)]

    def _encoded_coord(self, spec, ctx) -> List[Variant]:
        per = [self.variants(s, ctx) for s in priv(spec, "_elem_specs", "spec-seq")]
        n = max(len(p) for p in per)
        out = [(tuple(p[(k + i) % len(p)][0] for i, p in enumerate(per)), f"qvec{k}") for k in range(n)]
        # one component at a time, wire-first: every element gets the raw alphabet {min, min+1, mid-1, mid, mid+1, max-1,
        # max} (mid-1 / mid are the two zero-point raws of a zero-median code) + the small alphabet; 8-bit elements the
        # complete byte.  The tag carries the element's wire type so the payload can also be spliced at byte level
        # (component_raws / props: wire-first tier 1).
        elems = priv(spec, "_elem_specs", "spec-seq")
        wire = prim_wire(spec.ELEM_SPEC)
        lo, hi = int_range(wire)
        mid = struct.pack(INT_FMT[wire], (lo + hi + 1) // 2)
        # two bases: the lowest raw everywhere (= first row above) and the mid-range raw everywhere (small magnitudes, so
        # derived quantities such as a quaternion's real part are exercised on both sides)
        bases = [("", out[0][0]), ("m.", tuple(self._leaf_decode(es, mid) for es in elems))]
        out.append((bases[1][1], "m.base"))
        for pre, base in bases:
            for i, es in enumerate(elems):
                for r in component_raws(wire):
                    v = self._leaf_decode(es, struct.pack(INT_FMT[wire], r))
                    out.append((base[:i] + (v,) + base[i + 1:], f"{pre}c{i}:{wire}.raw={r}"))
        return out

    def _v_BytesFixed(self, spec, ctx):
        n = spec.calc_size()
        return [(b"\x00" * n, "zeros"), (b"\xff" * n, "ff"), (bytes((i * 37 + 1) & 0xFF for i in range(n)), "pattern")]

    def _v_ByteArray(self, spec, ctx):
        mx = priv(spec, "_len_spec", "prim").max_val
        out = [(b"abc", "abc"), (b"", "empty"), (b"\x00", "nul"), (bytes(range(min(255, mx))), "len255")]
        if mx >= 256:
            out.append((bytes(i & 0xFF for i in range(256)), "len256"))
        return out

    def _v_BytesGreedy(self, spec, ctx):
        return [(b"\x01\x02\x03", "b123"), (b"", "empty"), (b"\x00\xff", "nulff")]

    def _cstr_texts(self, terminators) -> List[str]:
        cands = ["abc", "", "héllo", "a b", "x\ty", "tab€", "q'\"\\"]
        terms = b"".join(terminators)
        return [c for c in cands if not any(bytes([ch]) in terms for ch in c.encode("utf8"))]

    def _v_CStr(self, spec, ctx):
        return [(t, f"text={t!r}") for t in self._cstr_texts(priv(spec, "_bytes_tmpl", "spec", only=(se.BytesBase,)).terminators)]

    def _v_BytesTerminated(self, spec, ctx):
        return [(t.encode("utf8"), f"bytes={t!r}") for t in self._cstr_texts(spec.terminators)]

    # -- adapters over primitives (wire-first)
    def _child_ints(self, adapter, sweep8=False) -> List[int]:
        child = ins.adapter_child(adapter)
        if child is None:
            raise UnknownSpec(f"{type(adapter).__name__} without child spec inside a payload template")
        return self._ints(prim_wire(child), sweep8)

    def _v_IntEnum(self, spec, ctx):
        wire = prim_wire(ins.adapter_child(spec))
        lo, hi = int_range(wire)
        members = [int(m) for m in spec.enum_cls.__members__.values()]
        vals = []
        for v in members + [m + 1 for m in members] + self._ints(wire):
            if lo <= v <= hi and v not in vals:
                vals.append(v)
        if len(vals) > 24 and not self.thorough:
            vals = vals[:24]
        return [(v, f"enum={v}") for v in vals]

    def _v_IntFlag(self, spec, ctx, flag_bits: int = 0):
        wire = prim_wire(ins.adapter_child(spec))
        lo, hi = int_range(wire)
        members = [int(m) for m in spec.flag_cls.__members__.values()]
        allm = 0
        for m in members:
            allm |= m
        foreign = next((1 << i for i in range(INT_BITS[wire]) if not (allm | flag_bits) & (1 << i)), 0)
        vals: List[int] = []
        if flag_bits:
            bits = [1 << i for i in range(INT_BITS[wire]) if flag_bits & (1 << i)]
            vals.append(flag_bits)  # base: every optional member present
            if len(bits) <= self.subset_cap:
                for r in range(len(bits) + 1):
                    for combo in itertools.combinations(bits, r):
                        vals.append(sum(combo))
            else:
                vals += [0] + bits + [flag_bits & ~b for b in bits]
            vals += [flag_bits | foreign, foreign, to_wire(wire, hi if lo == 0 else -1)]
        vals += [0] + members + [allm, allm | foreign, to_wire(wire, (1 << INT_BITS[wire]) - 1)]
        out = []
        for v in vals:
            if lo <= v <= hi and v not in out:
                out.append(v)
        return [(v, f"flags={v:#x}") for v in out]

    def _v_QuantizedFloat(self, spec, ctx):
        return [(spec.decode(r, ctx=None), f"raw={r}") for r in self._child_ints(spec)]

    def _v_FixedPoint(self, spec, ctx):
        wire = prim_wire(priv(spec, "_ser_spec", "prim"))
        return [(self._leaf_decode(spec, struct.pack(INT_FMT[wire], r)), f"raw={r}") for r in self._ints(wire)]

    def _v_BitField(self, spec, ctx):
        return [(r, f"raw={r}") for r in self._child_ints(spec, sweep8=True)]

    def _v_BitfieldDataclass(self, spec, ctx):
        return [(r, f"raw={r}") for r in self._child_ints(spec, sweep8=True)]

    def _v_BoolAdapter(self, spec, ctx):
        return [(bool(r), f"raw={r}") for r in self._child_ints(spec)]

    def _v_Color4(self, spec, ctx):
        return [(b"\xff\xff\xff\xff", "white"), (b"\x00\x00\x00\x00", "zero"), (b"\x01\x80\x7f\xfe", "mixed")]

    def _v_PackedQuat(self, spec, ctx):
        return [(v, "quat." + t) for v, t in self.variants(ins.adapter_child(spec), ctx)]

    def _v_ContextAdapter(self, spec, ctx):
        # wire-first through the option the context selects
        pc = se.ParseContext(ctx if ctx is not None else {})
        return [(spec.decode(r, ctx=pc, pod=False), f"raw={r}") for r in self._child_ints(spec, sweep8=True)]

    def _v_Adapter(self, spec, ctx):
        raise UnknownSpec(f"no value domain for adapter {type(spec).__name__}")

    # -- optional / switched
    def _v_OptionalPrefixed(self, spec, ctx):
        inner = self.variants(priv(spec, "_ser_spec", "spec"), ctx)
        return [inner[0], (None, "absent")] + inner[1:]

    def _v_IfPresent(self, spec, ctx):
        inner = self.variants(priv(spec, "_ser_spec", "spec"), ctx)
        return [inner[0], (None, "absent")] + inner[1:]

    @staticmethod
    def _flagged(spec) -> Tuple[str, int]:
        return priv(spec, "_flag_field", "str"), priv(spec, "_flag_val", "int")

    def _v_OptionalFlagged(self, spec, ctx):
        field, bit = self._flagged(spec)
        flag_val = ctx[field] if ctx is not None and field in ctx else 0
        if isinstance(flag_val, (tuple, list)):
            raise UnknownSpec("flag context must be generated as an int")
        if int(flag_val) & bit:
            return self.variants(priv(spec, "_ser_spec", "spec", index=-1), ctx)
        return [(None, "flag-off")]

    def _encoded_len(self, spec, val) -> Optional[int]:
        w = se.BufferWriter(self.endianness)
        try:
            w.write(spec, val)
        except Exception:
            return None
        return len(w.buffer)

    def _v_LengthSwitch(self, spec, ctx, only_size=None):
        """(size, value) pairs; for a fixed-size choice only values whose encoding has that size belong to the branch
        (trial encoding with the choice spec), for the catch-all branch only values whose size selects no other branch."""
        out = []
        heads = []
        choices = priv(spec, "_choice_specs", "spec-dict")
        for size, choice in choices.items():
            if only_size is not None and size != only_size:
                continue
            first = True
            for v, t in self.variants(choice, ctx):
                n = self._encoded_len(choice, v)
                if n is None or (size is not None and n != size) or (size is None and n in choices):
                    continue
                (heads if first else out).append(((size, v), f"len{size}.{t}"))
                first = False
        # one head per choice first, so that the first len(choices) variants cover every branch
        return heads + out

    def _v_EnumSwitch(self, spec, ctx):
        out = []
        choices = priv(spec, "_choice_specs", "spec-dict")
        for key, choice in choices.items():
            for v, t in self.variants(choice, ctx):
                out.append(((int(key), v), f"case{int(key)}.{t}"))
        heads = [next(x for x in out if x[0][0] == int(k)) for k in choices]
        return heads + [x for x in out if not any(x is h for h in heads)]

    # -- containers
    def _v_Template(self, spec, ctx):
        return self._fields(template_members(spec))

    def _fields(self, items: List[Tuple[str, Any]]) -> List[Variant]:
        names = [n for n, _ in items]
        specs = dict(items)
        refbits: Dict[str, int] = {}
        for n, s in items:
            if isinstance(s, se.OptionalFlagged):
                field, bit = self._flagged(s)
                refbits[field] = refbits.get(field, 0) | bit

        def child_variants(n, vals):
            return self.variants(specs[n], vals, flag_bits=refbits.get(n, 0))

        def build(vals: dict, start: int) -> dict:
            vals = dict(vals)
            for n in names[start:]:
                vals[n] = child_variants(n, vals)[0][0]
            return vals

        base = build({}, 0)
        out: List[Variant] = [(base, "base")]
        for i, n in enumerate(names):
            prefix = {k: base[k] for k in names[:i]}
            for v, tag in child_variants(n, prefix)[1:]:
                vals = dict(prefix)
                vals[n] = v
                out.append((build(vals, i + 1), f"{n}.{tag}"))
        # second base: every optional member absent (flag fields 0), all other leaves varied again
        if refbits:
            off: dict = {}
            for n in names:
                off[n] = 0 if n in refbits else child_variants(n, off)[0][0]
            out.append((off, "off.base"))
            for i, n in enumerate(names):
                if n in refbits or isinstance(specs[n], se.OptionalFlagged):
                    continue
                for v, tag in child_variants(n, off)[1:]:
                    vals = dict(off)
                    vals[n] = v
                    out.append((vals, f"off.{n}.{tag}"))
        return out

    def _v_Dataclass(self, spec, ctx):
        return self.variants(spec.template, ctx)

    def _v_Collection(self, spec, ctx):
        framing, entry_spec, _, fixed = ins.collection_info(spec)
        ev = self.variants(entry_spec, None)
        e0 = ev[0][0]
        if framing == "fixed":
            n = fixed
            return [([e0] * n, "fixed.base")] + [([v] + [e0] * (n - 1), f"fixed.0.{t}") for v, t in ev[1:]]
        out = [([e0], "one"), ([], "empty"), ([e0, e0], "two")]
        out += [([v], f"0.{t}") for v, t in ev[1:]]
        if len(ev) > 1:
            out.append(([e0, ev[1][0], e0], "three"))
        return out

    def _v_DictAdapter(self, spec, ctx):
        child = ins.adapter_child(spec)
        if not isinstance(child, se.Collection):
            raise UnknownSpec("DictAdapter over non-collection")
        ev = self.variants(ins.collection_info(child)[1], None)
        heads: List[Variant] = []
        for v, t in ev:  # first variant per distinct key
            if not any(h[0][0] == v[0] for h in heads):
                heads.append((v, t))
        out = [(dict([heads[0][0]]), "one"), ({}, "empty")]
        out.append((dict(h[0] for h in heads), "all-keys"))
        out.append((dict(h[0] for h in reversed(heads)), "all-keys-reversed"))
        out += [(dict([v]), f"0.{t}") for v, t in ev[1:]]
        return out

    def _typed(self, spec, ctx, only_size=None):
        inner_spec, _, empty_is_none = ins.typed_bytes_info(spec)
        inner = self.variants(inner_spec, None, only_size=only_size)
        if empty_is_none:
            inner = [inner[0], (None, "none")] + inner[1:]
        return inner

    def _v_TypedBytesBase(self, spec, ctx):
        return self._typed(spec, ctx)

    def _v_TypedBytesFixed(self, spec, ctx):
        return self._typed(spec, ctx, only_size=ins.typed_bytes_info(spec)[1].calc_size())

    # -- texture entries
    def _v_TEExceptionField(self, spec, ctx):
        iv = self.variants(priv(spec, "_spec", "spec"), None)
        d0 = iv[0][0]
        alt = [v for v, _ in iv[1:]] or [d0]
        a = lambda k: alt[k % len(alt)]
        out = [({None: d0}, "default")]
        out += [({None: v}, f"default.{t}") for v, t in iv[1:]]
        out += [({None: d0, (0,): a(0)}, "exc-face0"),
                ({None: a(0), (6, 7): a(1), (0,): d0}, "exc-6-7+0"),
                ({None: d0, tuple(range(14)): a(0)}, "exc-0..13"),
                ({None: d0, (7,): a(1)}, "exc-face7"),
                ({None: d0, (44,): a(2), (1, 3): a(0)}, "exc-44+1-3")]
        out += [({None: d0, (5,): v}, f"exc-face5.{t}") for v, t in iv[1:]]
        if ins.te_optional(spec):
            out.insert(1, (None, "absent"))
        return out

    # -- name values
    def _v_NameValuesSerializer(self, spec, ctx):
        def nv(name="attach", typ="STRING", rw="RW", sendto="SV", value="hello"):
            return {"name": name, "type": typ, "rw": rw, "sendto": sendto, "value": value}
        out = [([nv()], "one"), ([nv(), nv("n2", "U32", "R", "S", "42")], "two"), ([], "empty-list")]
        for typ, value in (("F32", "1.5"), ("S32", "-7"), ("VEC3", "<1, 2, 3>"), ("ASSET", str(UUIDS[0])), ("U64", "18446744073709551615"),
                           ("NULL", "x"), ("CAMERA", "c")):
            out.append(([nv(typ=typ, value=value)], f"type={typ}"))
        for rw in ("NULL", "R"):
            out.append(([nv(rw=rw)], f"rw={rw}"))
        for st in ("NULL", "S", "DS", "DSV"):
            out.append(([nv(sendto=st)], f"sendto={st}"))
        out += [([nv(value="")], "value-empty"), ([nv(value="two words \t x")], "value-spaces"), ([nv(value="hé")], "value-utf8"),
                ([nv(name="né")], "name-utf8"), (["attach STRING RW SV bare"], "bare-string")]
        return out



# ------------------------------------------------------------------------------------------------ payload mutation
def mutations(payload: bytes, thorough: bool, max_positions: int = 4096) -> List[Tuple[bytes, str]]:
    """Single-byte substitutions at every position, every truncation, one-byte extensions.  Tags are ``kind@detail``;
    only ``kind`` (sub / trunc / append) goes into violation sites, the witness carries the payload itself."""
    out: List[Tuple[bytes, str]] = []
    seen = {payload}
    n = len(payload)

    def add(b: bytes, tag: str):
        if b not in seen:
            seen.add(b)
            out.append((b, tag))

    for i in range(min(n, max_positions)):
        c = payload[i]
        subs = [0x00, 0xFF, c ^ 0x01, c ^ 0x80] + ([0x01, 0x7F, 0x80, (c + 1) & 0xFF] if thorough else [])
        for s in subs:
            add(payload[:i] + bytes([s]) + payload[i + 1:], f"sub@{i}={s:#04x}")
    for i in range(n):
        add(payload[:i], f"trunc@{i}")
    for s in (0x00, 0xFF) + ((0x01, 0x80) if thorough else ()):
        add(payload + bytes([s]), f"append@{s:#04x}")
    return out


# ------------------------------------------------------------------------------------------------ time zones
ZONES = ["UTC", "America/Los_Angeles", "Europe/London", "Australia/Lord_Howe"]


def dst_transitions(zone: str, years=(2020, 2021)) -> List[int]:
    """UTC instants (unix seconds) of UTC-offset changes of ``zone`` in the given years (zoneinfo, independent of
    the process TZ and of the code under test): the first second that has the new offset."""
    import zoneinfo
    tz = zoneinfo.ZoneInfo(zone)
    utc = datetime.timezone.utc
    start = int(datetime.datetime(years[0], 1, 1, tzinfo=utc).timestamp())
    end = int(datetime.datetime(years[-1] + 1, 1, 1, tzinfo=utc).timestamp())

    def off(t: int):
        return datetime.datetime.fromtimestamp(t, utc).astimezone(tz).utcoffset()

    out = []
    t = start
    prev = off(t)
    while t < end:
        nxt = t + 3600
        cur = off(nxt)
        if cur != prev:
            lo, hi = t, nxt  # off(lo) == prev, off(hi) == cur
            while hi - lo > 1:
                mid = (lo + hi) // 2
                if off(mid) == prev:
                    lo = mid
                else:
                    hi = mid
            out.append(hi)
            prev = cur
        t = nxt
    return out


def dst_sweep_instants(stride: int = 60, window: int = 7200) -> List[int]:
    inst = set()
    for z in ZONES:
        for tr in dst_transitions(z):
            inst.update(range(tr - window, tr + window + 1, stride))
            inst.update((tr - 1, tr, tr + 1))
    return sorted(inst)


def _tz_call(args):
    tz, fn, item = args
    os.environ["TZ"] = tz
    time.tzset()
    return fn(item)


def tz_map(fn, tz_items: Sequence[Tuple[str, Any]], jobs: int) -> list:
    """Run fn(item) with the process time zone set to tz, ALWAYS in forked worker processes (never in the caller), so
    the coordinator's TZ is never touched.  Every task sets TZ itself, so worker reuse cannot leak a zone."""
    import multiprocessing as mp
    ctx = mp.get_context("fork")
    work = [(tz, fn, item) for tz, item in tz_items]
    if not work:
        return []
    with ctx.Pool(max(1, min(jobs, len(work)))) as pool:
        return pool.map(_tz_call, work, 1)

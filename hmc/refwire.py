"""Independent reference model of the LLUDP wire format (DESIGN.md §2.2).

Parses message_template.msg itself (no use of hippolyzer's template parser), and encodes messages described as plain
Python data with `struct`.  Purpose: make *symmetric* codec mistakes visible -- a pack/unpack pair changed
consistently still round-trips, but no longer matches these bytes.

A reference message is::

    {"name": str, "flags": int, "packet_id": int, "acks": [int], "extra": bytes,
     "blocks": [(block_name, [ {var: value, ...}, ... ]), ...]}      # in template order; trailing blocks may be absent

Values: ints, floats, bools, 16-byte UUID bytes, dotted-quad str for IPADDR, tuples of floats for vectors (3 for
quaternion: x,y,z), bytes for Fixed/Variable (already including any NUL terminator).
"""
from __future__ import annotations

import os
import re
import socket
import struct
from typing import Dict, List, Tuple

REPO_ROOT = os.path.abspath(os.environ.get("HMC_REPO", "/repo"))
TEMPLATE_PATH = os.path.join(REPO_ROOT, "hippolyzer/lib/base/message/data/message_template.msg")

FIXED_FMT = {
    "U8": "<B", "U16": "<H", "U32": "<I", "U64": "<Q", "S8": "<b", "S16": "<h", "S32": "<i", "S64": "<q",
    "F32": "<f", "F64": "<d", "BOOL": "<B", "IPPORT": ">H",
}
VEC_FMT = {"LLVector3": "<3f", "LLVector3d": "<3d", "LLVector4": "<4f", "LLQuaternion": "<3f"}
TYPE_SIZE = {"U8": 1, "U16": 2, "U32": 4, "U64": 8, "S8": 1, "S16": 2, "S32": 4, "S64": 8, "F32": 4, "F64": 8,
             "BOOL": 1, "IPPORT": 2, "IPADDR": 4, "LLUUID": 16, "LLVector3": 12, "LLVector3d": 24, "LLVector4": 16,
             "LLQuaternion": 12}


class RVar:
    __slots__ = ("name", "type", "size")

    def __init__(self, name, typ, size):
        self.name, self.type, self.size = name, typ, size

    def __repr__(self):
        return f"RVar({self.name},{self.type},{self.size})"


class RBlock:
    __slots__ = ("name", "kind", "number", "vars")

    def __init__(self, name, kind, number):
        self.name, self.kind, self.number, self.vars = name, kind, number, []


class RTemplate:
    __slots__ = ("name", "freq", "num", "trust", "encoding", "deprecation", "blocks")

    def __init__(self, name, freq, num, trust, encoding, deprecation):
        self.name, self.freq, self.num, self.trust, self.encoding, self.deprecation = name, freq, num, trust, encoding, deprecation
        self.blocks: List[RBlock] = []

    @property
    def num_bytes(self) -> bytes:
        if self.freq == "Fixed":
            return b"\xff\xff\xff" + bytes([self.num & 0xFF])
        if self.freq == "Low":
            return b"\xff\xff" + struct.pack(">H", self.num)
        if self.freq == "Medium":
            return b"\xff" + bytes([self.num])
        return bytes([self.num])


def parse_templates(path: str = TEMPLATE_PATH) -> Dict[str, RTemplate]:
    text = open(path, encoding="utf8", errors="replace").read()
    text = re.sub(r"//[^\n]*", "", text)
    toks = re.findall(r"[{}]|[^\s{}]+", text)
    i = 0
    out: Dict[str, RTemplate] = {}
    assert toks[0] == "version"
    i = 2
    while i < len(toks):
        assert toks[i] == "{", toks[i:i + 5]
        i += 1
        hdr = []
        while toks[i] not in "{}":
            hdr.append(toks[i])
            i += 1
        name, freq, num, trust, enc = hdr[:5]
        dep = hdr[5] if len(hdr) > 5 else None
        t = RTemplate(name, freq, int(num, 0), trust, enc, dep)
        while toks[i] == "{":
            i += 1
            bh = []
            while toks[i] not in "{}":
                bh.append(toks[i])
                i += 1
            b = RBlock(bh[0], bh[1], int(bh[2]) if len(bh) > 2 else (1 if bh[1] == "Single" else 0))
            while toks[i] == "{":
                i += 1
                vh = []
                while toks[i] != "}":
                    vh.append(toks[i])
                    i += 1
                i += 1
                size = int(vh[2]) if len(vh) > 2 else TYPE_SIZE.get(vh[1], -1)
                b.vars.append(RVar(vh[0], vh[1], size))
            assert toks[i] == "}"
            i += 1
            t.blocks.append(b)
        assert toks[i] == "}"
        i += 1
        out[name] = t
    return out


_TEMPLATES = None


def templates() -> Dict[str, RTemplate]:
    global _TEMPLATES
    if _TEMPLATES is None:
        _TEMPLATES = parse_templates()
    return _TEMPLATES


def pack_var(v: RVar, val) -> bytes:
    t = v.type
    if t in FIXED_FMT:
        return struct.pack(FIXED_FMT[t], val)
    if t in VEC_FMT:
        return struct.pack(VEC_FMT[t], *val)
    if t == "LLUUID":
        assert len(val) == 16
        return bytes(val)
    if t == "IPADDR":
        return socket.inet_aton(val)
    if t == "Fixed":
        assert len(val) == v.size, (v, val)
        return bytes(val)
    if t == "Variable":
        n = len(val)
        if v.size == 1:
            return struct.pack("<B", n) + bytes(val)
        if v.size == 2:
            return struct.pack("<H", n) + bytes(val)
        raise ValueError(v)
    raise ValueError(f"unknown type {t}")


def zero_value_bytes(v: RVar) -> bytes:
    """Encoding of the variable's zero value at the width the template prescribes (default-fill clause)."""
    if v.type == "Variable":
        return b"\x00" * v.size  # zero length prefix, no payload
    if v.type == "Fixed":
        return b"\x00" * v.size
    return b"\x00" * TYPE_SIZE[v.type]


def encode_body(tmpl: RTemplate, blocks: List[Tuple[str, List[dict]]], extra: bytes = b"") -> bytes:
    out = bytearray(tmpl.num_bytes)
    out += extra
    given = dict(blocks)
    assert [n for n, _ in blocks] == [b.name for b in tmpl.blocks][:len(blocks)], "blocks must be a template-order prefix"
    for b in tmpl.blocks[:len(blocks)]:
        rows = given[b.name]
        if b.kind == "Multiple":
            assert len(rows) == b.number
        elif b.kind == "Single":
            assert len(rows) == 1
        else:
            assert len(rows) <= 255
            out.append(len(rows))
        for row in rows:
            for v in b.vars:
                if v.name in row:
                    out += pack_var(v, row[v.name])
                else:
                    out += zero_value_bytes(v)
    return bytes(out)


def zero_compress(data: bytes) -> bytes:
    """Canonical zero-coding: runs of zeros become 00 n, n in 1..255, never the wrap form."""
    out = bytearray()
    i, n = 0, len(data)
    while i < n:
        if data[i] != 0:
            out.append(data[i])
            i += 1
            continue
        j = i
        while j < n and data[j] == 0 and j - i < 255:
            j += 1
        out += bytes((0, j - i))
        i = j
    return bytes(out)


def zero_expand(data: bytes) -> bytes:
    """Reference semantics: 00 n = n zeros; each extra 00 before the count adds 256; a trailing lone 00 = one zero
    (and k trailing 00s with no count = 1 + 256*(k-1) zeros, as each continuation adds 256)."""
    out = bytearray()
    i, n = 0, len(data)
    while i < n:
        c = data[i]
        if c != 0:
            out.append(c)
            i += 1
            continue
        k = 0
        while i < n and data[i] == 0:
            k += 1
            i += 1
        if i < n:
            out += b"\x00" * (256 * (k - 1) + data[i])
            i += 1
        else:
            out += b"\x00" * (256 * (k - 1) + 1)
    return bytes(out)


def encode(msg: dict) -> bytes:
    tmpl = templates()[msg["name"]]
    flags = msg["flags"]
    extra = msg.get("extra", b"")
    body = encode_body(tmpl, msg["blocks"], extra)
    if flags & 0x80:
        body = zero_compress(body)
    out = bytearray(struct.pack(">BIB", flags, msg["packet_id"], len(extra)))
    out += body
    if flags & 0x10:
        acks = msg.get("acks", [])
        for a in reversed(acks):
            out += struct.pack(">I", a)
        out.append(len(acks))
    return bytes(out)

"""Spec-tree generator for hippolyzer.lib.base.serialization combinators + derived value domains (DESIGN 2.2).

A *descriptor* is a JSON-able nested list/tuple ``[kind, param...]`` (children are descriptors).  Public API:

  enumerate_specs(depth, families=True) -> list of closed descriptors (depth 0 = leaves; see ENUMERATION below)
  build(desc)        -> a fresh ``se`` spec object for the descriptor
  domain(desc, cap)  -> list[Val]; Val.rich / Val.pod = the value as written/read in non-pod / pod mode,
                        Val.enc = (little-endian bytes, big-endian bytes) by an independent reference encoder,
                        Val.eof = True when the encoding must end its byte window (window-consuming)
  order_variants(desc, val) -> (rich, pod) re-orderings of order-insensitive mappings that must encode/read identically
  probes(desc)       -> list[Probe] out-of-domain values (length max+1, wrong fixed length/count, range, bitfield overflow)
  classify(desc)     -> "self-delimiting" | "window-consuming" | "mixed" (derived from the domain's eof flags)
  describe(desc)     -> readable one-line form;  site(desc) -> root combinator + direct children (stable violation site)
  norm(value)        -> canonical comparable form (lazy proxies forced, floats by bits, list==tuple, typed enums/coords)

Domain derivation is structural recursion producing (rich, pod, reference bytes) together.  Adapters are handled
wire-first: the child's domain is enumerated and pushed through the adapter's own ``decode`` (pod and non-pod), so
values are always on the adapter's grid; values of a non-injective adapter are de-duplicated keeping the first
(canonical) wire representative.  Members that read a sibling (ContextSwitch / ContextAdapter / OptionalFlagged) get
their domain from the sibling values generated before them (``env`` = stack of frames, innermost last).

What is *in domain* (everything else is dropped from the domain, never reported):
  * a window-consuming value (eof=True: greedy bytes/collections, IfPresent, LengthSwitch, unterminated strings, a
    TypedBytesTerminated ``None``) may be followed inside a sequence only by members whose encoding is empty;
  * entries of a greedy Collection and the payload of IfPresent have a non-empty encoding (else the format cannot
    represent them); ``empty_is_none`` payloads likewise (unless the value is None itself);
  * terminated strings/bytes do not contain a terminator; Str/StrFixed values have no trailing NUL (stripped on read);
  * DictAdapter pair lists have unique keys; strict IntEnum / StringEnumAdapter only members;
  * floats are exact in their wire type, NaN excluded; quaternions have x^2+y^2+z^2 <= 1.
"""
from __future__ import annotations

import dataclasses
import enum
import itertools
import math
import struct
import uuid as _uuid
from typing import Any, ClassVar, Dict, List, Optional, Sequence, Tuple

import lazy_object_proxy

import hippolyzer.lib.base.datatypes as dtypes
import hippolyzer.lib.base.serialization as se
from hippolyzer.lib.base.multidict import OrderedMultiDict

CAP = 24
ENDIANS = ("<", ">")


# ------------------------------------------------------------------------------------------------ fixtures
class E8(dtypes.IntEnum):
    ZERO = 0
    ONE = 1
    TOP = 255


class E2(dtypes.IntEnum):
    LO = 0
    HI = 2


class F8(dtypes.IntFlag):
    A = 1
    B = 2
    D = 8
    H = 128


class FMask(dtypes.IntFlag):
    """single-bit members + zero member + alias + multi-bit combinations + a mask none of whose bits has its own member"""
    NONE = 0
    READ = 1
    WRITE = 2
    EXEC = 4
    RW = 3            # READ | WRITE
    ALL = 7           # READ | WRITE | EXEC
    GET = 1           # alias of READ
    BIT5 = 0x20
    HIGH_MASK = 0xC0


FLAG_CLASSES = {"F8": F8, "mask": FMask}


class SEnum(dtypes.StringEnum):
    FOO = "foo"
    BAR = "bar"


@dataclasses.dataclass
class BFDC:
    kind: Any = se.bitfield_field(bits=2, adapter=se.IntEnum(E2))
    on: Any = se.bitfield_field(bits=1, adapter=se.BoolAdapter())
    num: Any = se.bitfield_field(bits=5)


class TexGenLike(dtypes.IntEnum):      # values pre-shifted to their bit position, as templates.TexGen (shift=False layout)
    DEFAULT = 0
    PLANAR = 2
    SPHERICAL = 4
    CYLINDRICAL = 6


class ParcelTypeLike(dtypes.IntEnum):
    PUBLIC = 0
    OWNED = 1
    GROUP = 2
    SELF = 3
    FOR_SALE = 4
    AUCTION = 5


class ParcelFlagsLike(dtypes.IntFlag):
    UNUSED = 0x8
    HIDDEN_AVS = 0x10
    SOUND_LOCAL = 0x20
    WEST_LINE = 0x40
    SOUTH_LINE = 0x80


@dataclasses.dataclass
class MediaFlagsLike:                  # templates.MediaFlags / MEDIA_FLAGS = BitfieldDataclass(MediaFlags, U8, shift=False)
    WebPage: Any = se.bitfield_field(bits=1, adapter=se.BoolAdapter(), default=False)
    TexGen: Any = se.bitfield_field(bits=2, adapter=se.IntEnum(TexGenLike), default=TexGenLike.DEFAULT)
    _Unused: Any = se.bitfield_field(bits=5, default=0)


@dataclasses.dataclass
class ParcelGridInfoLike:              # templates.ParcelGridInfo: prim spec and shift come from class attributes
    PRIM_SPEC: ClassVar[Any] = se.U8
    SHIFT: ClassVar[bool] = False
    Type: Any = se.bitfield_field(bits=3, adapter=se.IntEnum(ParcelTypeLike))
    Flags: Any = se.bitfield_field(bits=5, adapter=se.IntFlag(ParcelFlagsLike))


_BF_ADAPTERS = {"E2": lambda: se.IntEnum(E2), "bool": lambda: se.BoolAdapter(), "TG": lambda: se.IntEnum(TexGenLike),
                "PT": lambda: se.IntEnum(ParcelTypeLike), "PF": lambda: se.IntFlag(ParcelFlagsLike)}
BITFIELD_SCHEMAS = {
    "full8": (("a", 3), ("b", 5)),
    "part16": (("a", 3), ("b", 5)),          # fewer bits than the 16-bit primitive
    "adapt8": (("kind", 2, "E2"), ("on", 1, "bool"), ("num", 5)),
    "media8": (("WebPage", 1, "bool"), ("TexGen", 2, "TG"), ("_Unused", 5)),      # MEDIA_FLAGS layout (used with shift=False)
    "parcel8": (("Type", 3, "PT"), ("Flags", 5, "PF")),                           # ParcelGridInfo layout (shift=False)
}
# BitfieldDataclass layouts: name -> (dataclass, shift, schema id, pass prim/shift explicitly?)
BFDC_LAYOUTS = {"basic": (BFDC, True, "adapt8", True), "media": (MediaFlagsLike, False, "media8", True),
                "parcel": (ParcelGridInfoLike, False, "parcel8", False)}

PRIMS: Dict[str, Tuple[str, list]] = {
    "U8": ("B", [0, 1, 2, 0x7F, 0x80, 0xFE, 0xFF]),
    "S8": ("b", [0, 1, -1, 2, 127, -128]),
    "U16": ("H", [0, 1, 0xFF, 0x100, 0x7FFF, 0x8000, 0xFFFF]),
    "S16": ("h", [0, 1, -1, 0x100, 0x7FFF, -0x8000]),
    "U32": ("I", [0, 1, 0x10000, 0x7FFFFFFF, 0x80000000, 0xFFFFFFFF, 0x01020304]),
    "S32": ("i", [0, 1, -1, 0x7FFFFFFF, -0x80000000, 0x01020304]),
    "U64": ("Q", [0, 1, 1 << 32, (1 << 63) - 1, 1 << 63, (1 << 64) - 1, 0x0102030405060708]),
    "S64": ("q", [0, 1, -1, (1 << 63) - 1, -(1 << 63), 0x0102030405060708]),
    "F32": ("f", [0.0, -0.0, 1.0, -1.5, 3.4028234663852886e+38, 1.401298464324817e-45, float("inf"), float("-inf")]),
    "F64": ("d", [0.0, -0.0, 1.0, -1.5, 1.7976931348623157e+308, 5e-324, float("inf"), float("-inf"), 0.1]),
}
PRIM_RANGE = {"U8": (0, 0xFF), "S8": (-128, 127), "U16": (0, 0xFFFF), "S16": (-0x8000, 0x7FFF), "U32": (0, 0xFFFFFFFF),
              "S32": (-0x80000000, 0x7FFFFFFF), "U64": (0, (1 << 64) - 1), "S64": (-(1 << 63), (1 << 63) - 1)}
UUIDS = ["00000000-0000-0000-0000-000000000000", "ffffffff-ffff-ffff-ffff-ffffffffffff", "01020304-0506-0708-090a-0b0c0d0e0f10"]
VEC_ROWS = [(0.0, 0.0, 0.0, 0.0), (1.0, -1.5, 0.5, 2.0), (-0.0, 0.25, -0.5, 0.5), (0.5, 0.5, 0.5, 0.5)]
COORD = {"vector3": (se.Vector3, dtypes.Vector3, "f", 3), "vector4": (se.Vector4, dtypes.Vector4, "f", 4),
         "vector3d": (se.Vector3D, dtypes.Vector3, "d", 3)}
QVEC = {"Vector3U16": (se.Vector3U16, "U16", 3), "Vector2U16": (se.Vector2U16, "U16", 2), "Vector4U16": (se.Vector4U16, "U16", 4),
        "Vector3U8": (se.Vector3U8, "U8", 3), "Vector4U8": (se.Vector4U8, "U8", 4)}


def T(x):
    """Descriptors survive a JSON round trip as lists; normalise to nested tuples (hashable, comparable)."""
    if isinstance(x, (list, tuple)):
        return tuple(T(y) for y in x)
    return x


def _pk(endian: str, prim: str, v) -> bytes:
    return struct.pack(endian + PRIMS[prim][0], v)


def _both(prim: str, v) -> Tuple[bytes, bytes]:
    return (_pk("<", prim, v), _pk(">", prim, v))


def _cat(*encs) -> Tuple[bytes, bytes]:
    return (b"".join(e[0] for e in encs), b"".join(e[1] for e in encs))


def _same(b: bytes) -> Tuple[bytes, bytes]:
    return (bytes(b), bytes(b))


class Val:
    """trich/tpod = the *twin*: the same value with the key insertion order of every order-insensitive mapping inside it
    reversed (Template / Dataclass-pod / FlagSwitch / BitField dicts; never DictAdapter / MultiDict / Collection, where
    order is part of the value).  The twin must encode to the same bytes and read back equal to the canonical value."""
    __slots__ = ("rich", "pod", "enc", "eof", "trich", "tpod", "alt")

    def __init__(self, rich, pod, enc, eof=False, trich=None, tpod=None, twin_of: "Val" = None):
        self.rich, self.pod, self.enc, self.eof = rich, pod, enc, eof
        self.alt = None   # extra acceptable encodings (only: a quantised-float zero whose two centre codes are interchangeable)
        if twin_of is not None:
            trich, tpod = twin_of.trich, twin_of.tpod
            self.trich, self.tpod = trich, tpod
        else:
            self.trich = rich if trich is None and tpod is None else trich
            self.tpod = pod if trich is None and tpod is None else tpod

    def __repr__(self):
        return f"Val({self.rich!r}, pod={self.pod!r}, enc={self.enc[0].hex()}{', eof' if self.eof else ''})"


class Probe:
    __slots__ = ("value", "why")

    def __init__(self, value, why):
        self.value, self.why = value, why


# ------------------------------------------------------------------------------------------------ norm
def norm(x: Any) -> Any:
    while isinstance(x, lazy_object_proxy.Proxy):
        x = x.__wrapped__
    if x is None:
        return None
    if isinstance(x, enum.Enum):
        return ("E", type(x).__name__, x.value)
    if isinstance(x, bool):
        return ("b", x)
    if isinstance(x, int):
        return int(x)
    if isinstance(x, float):
        return ("f", struct.pack(">d", x).hex())
    if isinstance(x, str):
        return str(x)
    if isinstance(x, (bytes, bytearray, memoryview)):
        return ("y", bytes(x))
    if isinstance(x, _uuid.UUID):
        return ("U", type(x).__name__, x.int)
    if isinstance(x, dtypes.TupleCoord):
        return ("V", type(x).__name__, tuple(norm(c) for c in x))
    if isinstance(x, dtypes.TaggedUnion):
        return ("TU", norm(x.tag), norm(x.value))
    if isinstance(x, OrderedMultiDict):
        return ("MD", tuple((norm(k), norm(v)) for k, v in x.items(multi=True)))
    if isinstance(x, dict):
        return ("D", tuple((norm(k), norm(v)) for k, v in x.items()))
    if dataclasses.is_dataclass(x) and not isinstance(x, type):
        return ("DC", type(x).__name__, tuple((f.name, norm(getattr(x, f.name))) for f in dataclasses.fields(x)))
    if isinstance(x, (list, tuple)):
        return ("L", tuple(norm(v) for v in x))
    return ("?", repr(x))


# ------------------------------------------------------------------------------------------------ build
def _terms(t) -> Tuple[bytes, ...]:
    return tuple(bytes([b]) for b in t)


def _key_fun(key):
    """key = (up, selector[, "attr"]): walk ``up`` frames towards the root (``ctx._``), or jump to ``ctx._root`` when up == "root",
    then index (int) / item (str) -- or attribute access (``ctx._.Field``) with "attr"."""
    up, sel = key[0], key[1]
    attr = len(key) > 2 and key[2] == "attr"

    def fun(ctx):
        if up == "root":
            ctx = ctx._root
        else:
            for _ in range(int(up)):
                ctx = ctx._
        return getattr(ctx, sel) if attr else ctx[sel]
    return fun


def _bitfield_schema(schema_id: str):
    out = {}
    for ent in BITFIELD_SCHEMAS[schema_id]:
        if len(ent) == 3:
            out[ent[0]] = se.BitfieldEntry(bits=ent[1], adapter=_BF_ADAPTERS[ent[2]]())
        else:
            out[ent[0]] = ent[1]
    return out


_DC_CACHE: Dict[Any, type] = {}


def _dataclass_for(desc) -> type:
    desc = T(desc)
    if desc not in _DC_CACHE:
        fields = [(name, Any, se.dataclass_field(build(child))) for name, child in desc[1]]
        if desc[0] == "dcderived":   # a serializable dataclass extending another one (own class pair per descriptor, build order included)
            base = dataclasses.make_dataclass("DCBase", fields)
            extra = [(name, Any, se.dataclass_field(build(child))) for name, child in desc[2]]
            _DC_CACHE[desc] = (base, dataclasses.make_dataclass("DCDerived", extra, bases=(base,)))
        else:
            _DC_CACHE[desc] = dataclasses.make_dataclass("DC", fields)
    return _DC_CACHE[desc]


def _members(d):
    """(name, child) members of a Template / Dataclass descriptor; a derived dataclass has its base's fields first."""
    return tuple(d[1]) + tuple(d[2]) if d[0] == "dcderived" else tuple(d[1])


def _opt_key(k):
    return se.MISSING if k == "*" else k


def _adapter(desc):
    desc = T(desc)
    if desc[0] == "a_bool":
        return se.BoolAdapter()
    if desc[0] == "a_id":
        return se.IdentityAdapter()
    if desc[0] == "a_enum":
        return se.IntEnum(E8)
    if desc[0] == "a_expr":
        return se.ExprAdapter(None, decode_func=_expr_dec, encode_func=_expr_enc)
    raise ValueError(desc)


def _expr_dec(x):
    return x * 2 + 1


def _expr_enc(x):
    return (x - 1) // 2


def _ctb(d, i) -> dict:
    """optional trailing descriptor element: check_trailing_bytes (only passed when the descriptor varies it)."""
    return {"check_trailing_bytes": d[i]} if len(d) > i else {}


def build(desc) -> Any:
    d = T(desc)
    k = d[0]
    if k == "prim":
        return getattr(se, d[1])
    if k == "bytearray":
        return se.ByteArray(getattr(se, d[1]))
    if k == "bytesfixed":
        return se.BytesFixed(d[1])
    if k == "bytesgreedy":
        return se.BytesGreedy()
    if k == "bytesterm":
        return se.BytesTerminated(_terms(d[1]), write_terminator=d[2], eof_terminates=d[3])
    if k == "str":
        return se.Str(getattr(se, d[1]), null_term=d[2])
    if k == "strfixed":
        return se.StrFixed(d[1])
    if k == "cstr":
        kw = {}
        if len(d) > 3 and d[3] is not None:
            kw["encoding"] = d[3]
        if len(d) > 4:
            kw["eof_terminates"] = d[4]
        return se.CStr(terminators=_terms(d[1]), write_terminator=d[2], **kw)
    if k == "struct":
        return se.Struct(d[1])
    if k == "forward":
        child = d[1]
        return se.ForwardSerializable(lambda: build(child))
    if k == "uuid":
        return se.UUID
    if k in COORD:
        return COORD[k][0]
    if k == "qvec":
        return QVEC[d[1]][0](d[2], d[3])
    if k == "fpvec":
        return se.FixedPointVector3U16(d[1], d[2], signed=d[3])
    if k == "packedquat":
        return se.PackedQuat(build(_pq_child(d)))
    if k == "null":
        return se.Null
    if k == "qfloat":
        return se.QuantizedFloat(getattr(se, d[1]), d[2], d[3], **({"zero_median": d[4]} if len(d) > 4 else {}))
    if k == "qvecs":
        return QVEC[d[1]][0](component_scales=d[2])
    if k == "fixedpoint":
        return se.FixedPoint(getattr(se, d[1]), d[2], d[3], signed=d[4])
    if k == "intenum":
        return se.IntEnum(E8, getattr(se, d[1]), strict=d[2])
    if k == "intflag":
        return se.IntFlag(FLAG_CLASSES[d[2]] if len(d) > 2 else F8, getattr(se, d[1]))
    if k == "bitfield":
        return se.BitField(getattr(se, d[1]), _bitfield_schema(d[2]), shift=d[3])
    if k == "bfdc":
        cls, shift, _, explicit = BFDC_LAYOUTS[d[2] if len(d) > 2 else "basic"]
        if len(d) == 2:
            return se.BitfieldDataclass(cls, getattr(se, d[1]))
        return se.BitfieldDataclass(cls, getattr(se, d[1]), shift=shift) if explicit else se.BitfieldDataclass(cls)
    if k == "booladapter":
        return se.BoolAdapter(getattr(se, d[1]))
    if k == "expr":
        if len(d) > 2 and d[2] == "id":
            return se.ExprAdapter(getattr(se, d[1]))  # default (identity) functions
        return se.ExprAdapter(getattr(se, d[1]), decode_func=_expr_dec, encode_func=_expr_enc)
    if k == "strenum":
        return se.StringEnumAdapter(SEnum, build(d[1]))
    # ---- unary
    if k == "optprefixed":
        return se.OptionalPrefixed(build(d[1]))
    if k == "ifpresent":
        return se.IfPresent(build(d[1]))
    if k == "coll":
        ln = d[1]
        return se.Collection(getattr(se, ln) if isinstance(ln, str) else ln, build(d[2]))
    if k == "typedbytearray":
        return se.TypedByteArray(getattr(se, d[1]), build(d[2]), empty_is_none=d[3], lazy=d[4], **_ctb(d, 5))
    if k == "typedfixed":
        return se.TypedBytesFixed(d[1], build(d[2]), lazy=d[3], **_ctb(d, 4))
    if k == "typedgreedy":
        return se.TypedBytesGreedy(build(d[1]), empty_is_none=d[2], lazy=d[3], **_ctb(d, 4))
    if k == "typedterm":
        return se.TypedBytesTerminated(build(d[1]), _terms(d[2]), empty_is_none=d[3], lazy=d[4], **_ctb(d, 5))
    if k == "dict":
        return (se.MultiDictAdapter if d[1] else se.DictAdapter)(build(d[2]))
    # ---- n-ary
    if k == "tuple":
        return se.Tuple(*[build(c) for c in d[1]])
    if k == "template":
        return se.Template({n: build(c) for n, c in d[1]}, skip_missing=d[2])
    if k == "dataclass":
        return se.Dataclass(_dataclass_for(d))
    if k == "dcderived":
        base, derived = _dataclass_for(d)
        if d[3] == "base-first":     # the spec of the base class is built before the derived one's (as TransferParamsSerializer does)
            se.Dataclass(base)
            return se.Dataclass(derived)
        spec = se.Dataclass(derived)
        se.Dataclass(base)
        return spec
    if k == "enumswitch":
        return se.EnumSwitch(se.IntEnum(E8, getattr(se, d[1])), {E8(m): build(c) for m, c in d[2]})
    if k == "flagswitch":
        return se.FlagSwitch(se.IntFlag(F8, getattr(se, d[1])), {F8(m): build(c) for m, c in d[2]})
    if k == "lenswitch":
        return se.LengthSwitch({n: build(c) for n, c in d[1]})
    if k == "optflagged":
        fs = build(d[2])
        return se.OptionalFlagged(d[1], fs, d[3], build(d[4]))
    if k == "ctxswitch":
        return se.ContextSwitch(_key_fun(d[1]), {_opt_key(o): build(c) for o, c in d[2]})
    if k == "ctxadapter":
        return se.ContextAdapter(_key_fun(d[1]), build(d[2]), {_opt_key(o): _adapter(a) for o, a in d[3]})
    raise ValueError(f"unknown descriptor kind {k!r}")


# ------------------------------------------------------------------------------------------------ domains
STATS = {"decode_rejects": 0}
_DOM_CACHE: Dict[Any, List[Val]] = {}
EMPTY = (b"", b"")


def _thin(rows: list, n: int, ident=None) -> list:
    """Keep <= n rows: first a greedy cover so that every (position, member value) still occurs, then an even stride."""
    if len(rows) <= n:
        return rows
    keep, seen = [], set()
    if ident is not None:
        for i, r in enumerate(rows):
            ids = ident(r)
            if any(x not in seen for x in ids):
                seen.update(ids)
                keep.append(i)
    keep = keep[:n]
    if len(keep) < n:
        have = set(keep)
        want = n - len(keep)
        for j in range(want):
            i = round(j * (len(rows) - 1) / max(1, want - 1))
            while i in have and i < len(rows) - 1:
                i += 1
            if i not in have:
                have.add(i)
        keep = sorted(have)[:n]
    return [rows[i] for i in sorted(keep)]


def _row_ident(row):
    return [(i, id(v)) for i, v in enumerate(row)]


def _seq_ok(vals: Sequence[Val]) -> bool:
    """A window-consuming member may only be followed by members that encode to nothing."""
    tail_nonempty = False
    for v in reversed(vals):
        if v.eof and tail_nonempty:
            return False
        if v.enc[0]:
            tail_nonempty = True
    return True


def _lookup(env, key):
    up, sel = key[0], key[1]
    if up == "root":
        return env[0][sel]   # root keys are only generated in top-level family trees (outermost frame == the tree's own)
    return env[-1 - int(up)][sel]


def _adapt(spec, child_vals: List[Val], ctx=None, mapping: bool = False) -> List[Val]:
    out, seen = [], set()
    for cv in child_vals:
        try:
            rich = spec.decode(cv.rich, ctx, pod=False)
            pod = spec.decode(cv.pod, ctx, pod=True)
        except Exception:
            STATS["decode_rejects"] += 1
            continue
        key = repr(norm(rich))
        if key in seen:
            continue
        seen.add(key)
        if cv.trich is cv.rich and cv.tpod is cv.pod:
            trich, tpod = rich, pod
        else:
            trich, tpod = spec.decode(cv.trich, ctx, pod=False), spec.decode(cv.tpod, ctx, pod=True)
        if mapping:
            trich, tpod = _rev(trich), _rev(tpod)
        out.append(Val(rich, pod, cv.enc, cv.eof, trich, tpod))
    return out


def _rev(x):
    """A dict with reversed key insertion order (other values unchanged)."""
    return dict(reversed(list(x.items()))) if type(x) is dict else x


def _prim_vals(prim: str, values=None) -> List[Val]:
    return [Val(v, v, _both(prim, v)) for v in (PRIMS[prim][1] if values is None else values)]


def _coord_vals(kind: str, rows) -> List[Val]:
    _, cls, fmt, n = COORD[kind]
    out = []
    for row in rows:
        comps = tuple(float(c) for c in row[:n])
        enc = (b"".join(struct.pack("<" + fmt, c) for c in comps), b"".join(struct.pack(">" + fmt, c) for c in comps))
        out.append(Val(cls(*comps), comps, enc))
    return out


def _str_vals(d, values=None) -> List[Val]:
    k = d[0]
    out = []
    if k == "str":
        mx = PRIM_RANGE[d[1]][1]
        vals = values if values is not None else ["", "a", "hi\0there", "é", "x" * (min(mx, 255) - (1 if d[2] else 0))]
        for s in vals:
            b = s.encode("utf8") + (b"\0" if d[2] else b"")
            if len(b) > mx or s.endswith("\0"):
                continue
            out.append(Val(s, s, _cat(_both(d[1], len(b)), _same(b))))
    elif k == "strfixed":
        n = d[1]
        vals = values if values is not None else ["", "a", "abcd"[:n], "é", "a\0b"]
        for s in dict.fromkeys(vals):
            b = s.encode("utf8")
            if len(b) > n or s.endswith("\0"):
                continue
            out.append(Val(s, s, _same(b + b"\0" * (n - len(b)))))
    elif k == "cstr":
        terms = _terms(d[1])
        enc_name = d[3] if len(d) > 3 and d[3] is not None else "utf8"
        vals = values if values is not None else ["", "a", "héllo", "a b"] + CSTR_TEXT.get(enc_name, [])
        for s in dict.fromkeys(vals):
            try:
                b = s.encode(enc_name)      # reference bytes: the same codec, Python's own implementation
            except UnicodeEncodeError:
                continue                    # not encodable in this spec's encoding: out of domain
            if any(t in b for t in terms):
                continue
            out.append(Val(s, s, _same(b + (terms[0] if d[2] else b"")), eof=not d[2]))
    else:
        raise ValueError(d)
    return out


# extra text per CStr encoding (non-ASCII characters that encoding can hold; invalid-as-UTF-8 bytes for the 8-bit ones)
CSTR_TEXT = {"utf8": ["€", "\U0001d532x", "ÿ"], "latin1": ["café", "ÿé", "\x80\xff"], "cp1252": ["café", "€", "œŸ"],
             "ascii": ["~x"], "utf-16-le": ["é€", "\U0001d532", "ab"]}


def _pq_child(d):
    """PackedQuat child descriptor; the legacy string form names a float coordinate class."""
    return (d[1],) if isinstance(d[1], str) else d[1]


def _quat_rows(kind):
    if kind == "vector3":
        return [(0.0, 0.0, 0.0), (0.5, 0.5, 0.5), (1.0, 0.0, 0.0), (-0.5, 0.25, 0.0), (-0.5, -0.5, -0.5), (0.0, -1.0, 0.0)]
    # 4-component children store W on the wire: W > 0, W == 0 (+0.0 and -0.0) and W < 0
    return [(0.0, 0.0, 0.0, 1.0), (0.5, 0.5, 0.5, 0.5), (1.0, 0.0, 0.0, 0.0), (-0.5, 0.25, 0.0, 0.75),
            (0.0, 0.0, 0.0, -1.0), (0.5, 0.5, -0.5, -0.5), (-0.5, 0.25, 0.0, -0.75), (0.0, 1.0, 0.0, -0.0), (0.25, 0.0, 0.0, -0.125)]


def _closed(d) -> bool:
    return _free_depth(d, 0) < 0


def _free_depth(d, frames: int) -> int:
    """max over context reads of (up - frames available inside this tree); >= 0 means the tree reads an enclosing ctx."""
    k = d[0]
    worst = -1
    if k in ("ctxswitch", "ctxadapter"):
        worst = max(worst, 99 if d[1][0] == "root" else int(d[1][0]) - frames)  # a root lookup is never closed below the top level
    if k == "optflagged":
        worst = max(worst, 0 - frames)
    for child, pushes in _children(d):
        worst = max(worst, _free_depth(child, frames + (1 if pushes else 0)))
    return worst


def _children(d):
    """(child descriptor, whether the parent pushes a ParseContext frame around it)."""
    k = d[0]
    if k in ("optprefixed", "ifpresent", "forward"):
        return [(d[1], False)]
    if k == "strenum":
        return [(d[1], False)]
    if k == "coll":
        return [(d[2], True)]
    if k in ("typedbytearray", "typedfixed", "dict"):
        return [(d[2], False)]
    if k in ("typedgreedy", "typedterm"):
        return [(d[1], False)]
    if k == "tuple":
        return [(c, True) for c in d[1]]
    if k in ("template", "dataclass", "dcderived"):
        return [(c, True) for _, c in _members(d)]
    if k in ("enumswitch", "flagswitch"):
        return [(c, False) for _, c in d[2]]
    if k == "lenswitch":
        return [(c, False) for _, c in d[1]]
    if k == "optflagged":
        return [(d[4], False)]
    if k == "ctxswitch":
        return [(c, False) for _, c in d[2]]
    if k == "ctxadapter":
        return [(d[2], False)]
    return []


def _full(d) -> bool:
    """leaf descriptors ending in "full" sweep the complete 8-bit wire domain and are exempt from the value cap."""
    return d[0] == "intflag" and d[-1] == "full"


def domain(desc, cap: int = CAP) -> List[Val]:
    """Values of a *closed* descriptor (<= cap, every direct member value still occurring where possible)."""
    d = T(desc)
    return _dom_all(d, []) if _full(d) else _thin(_dom_all(d, []), cap)


def _dom(d, env) -> List[Val]:
    """domain of a member as seen by its parent: only values with a single acceptable encoding."""
    return _strict(_dom_all(d, env))


def _dom_all(d, env) -> List[Val]:
    closed = _closed(d)
    if closed and d in _DOM_CACHE:
        return _DOM_CACHE[d]
    vals = _dom_raw(d, env)
    if not _full(d):
        vals = _thin(vals, 2 * CAP)
    if closed:
        _DOM_CACHE[d] = vals
    return vals


def _strict(vals: List[Val]) -> List[Val]:
    """values with a single acceptable encoding (composite trees are built from these only)."""
    return [v for v in vals if v.alt is None] if any(v.alt is not None for v in vals) else vals


def _typed_payload(v: Val, ein: bool):
    """payload bytes of a typed-bytes wrapper for child value v, or None if v is not representable."""
    if ein and v.rich is None:
        return EMPTY
    if ein and not v.enc[0]:
        return None
    return v.enc


def _dom_raw(d, env) -> List[Val]:
    k = d[0]
    if k == "prim":
        return _prim_vals(d[1])
    if k == "bytearray":
        mx = PRIM_RANGE[d[1]][1]
        vals = [b"", b"\0", b"a", b"ab\0", b"\xff\xfe", b"x" * min(mx, 256)]
        return [Val(v, v, _cat(_both(d[1], len(v)), _same(v))) for v in vals]
    if k == "bytesfixed":
        n = d[1]
        vals = [b""] if n == 0 else [b"\0" * n, b"\xff" * n, bytes(range(1, n + 1))]
        return [Val(v, v, _same(v)) for v in vals]
    if k == "bytesgreedy":
        return [Val(v, v, _same(v), eof=True) for v in (b"", b"\0", b"ab", b"\xff\x01\x00")]
    if k == "bytesterm":
        terms = _terms(d[1])
        return [Val(v, v, _same(v + (terms[0] if d[2] else b"")), eof=not d[2])
                for v in (b"", b"a", b"ab\xff", b"a b") if not any(t in v for t in terms)]
    if k in ("str", "strfixed", "cstr"):
        return _str_vals(d)
    if k == "uuid":
        return [Val(dtypes.UUID(s), s, _same(_uuid.UUID(s).bytes)) for s in UUIDS]
    if k in COORD:
        return _coord_vals(k, VEC_ROWS)
    if k == "struct":
        fmt = d[1]
        alpha = {"B": (0, 1, 0xFF, 0x7F), "H": (0, 0x100, 0xFFFF, 0x8000), "I": (0, 0x10000, 0xFFFFFFFF, 0x01020304)}
        rows = [tuple(alpha[c][r] for c in fmt.lstrip("<>!")) for r in range(4)]
        fixed = fmt[:1] in "<>!"
        return [Val(r, r, (struct.pack(fmt if fixed else "<" + fmt, *r), struct.pack(fmt if fixed else ">" + fmt, *r))) for r in rows]
    if k == "forward":
        return [Val(v.rich, v.pod, v.enc, v.eof, twin_of=v) for v in _dom(d[1], env)]
    if k in ("qvec", "qvecs"):
        scls, prim, n = QVEC[d[1]]
        spec = build(d)
        alpha = PRIMS[prim][1]
        out, seen = [], set()
        top = PRIM_RANGE[prim][1]
        mid = [top // 2, top // 2 + 1, top * 3 // 8, top * 9 // 16, top * 5 // 8, top * 7 // 16]   # around the middle of the range
        rows = [[alpha[(r + 2 * i) % len(alpha)] for i in range(n)] for r in range(len(alpha))]
        rows += [[mid[(r + i) % len(mid)] for i in range(n)] for r in (0, 2, 3)]   # small components (inside the unit ball for -1..1)
        for wire in rows:
            comps = [spec._elem_specs[i].decode(w, None) for i, w in enumerate(wire)]
            rich = scls.COORD_CLS(*comps)
            key = repr(norm(rich))
            if key not in seen:
                seen.add(key)
                out.append(Val(rich, tuple(rich), _cat(*[_both(prim, w) for w in wire])))
        return out
    if k == "fpvec":
        alpha = PRIMS["U16"][1]
        out = []
        for r in range(len(alpha)):
            wire = [alpha[(r + 2 * i) % len(alpha)] for i in range(3)]
            comps = [w / (1 << d[2]) - ((1 << d[1]) if d[3] else 0) for w in wire]
            rich = dtypes.Vector3(*comps)
            out.append(Val(rich, tuple(rich), _cat(*[_both("U16", w) for w in wire])))
        return out
    if k == "packedquat":
        child = _pq_child(d)
        # float children: hand-picked unit-ball rows on both sides of W = 0; quantised children: wire-first (their U16/U8
        # alphabets put every component, W included, below, at and above the zero median)
        return _adapt(build(d), _coord_vals(child[0], _quat_rows(child[0])) if child[0] in COORD else _dom(child, env))
    if k == "null":
        return [Val(None, None, EMPTY)]
    if k == "fixedpoint":
        out = []
        for w in PRIMS[d[1]][1]:
            f = float(w) / (1 << d[3]) - ((1 << d[2]) if d[4] else 0)
            out.append(Val(f, f, _both(d[1], w)))
        return out
    if k == "qfloat" and len(d) > 4 and d[4] is True:
        # HEAD ignores an explicit zero_median=True (only None triggers the inference) and then behaves like False; either
        # reading is self-consistent, so this option value is derived wire-first through the adapter instead of the reference.
        return _adapt(build(d), _prim_vals(d[1]))
    if k == "qfloat":
        # Independent reference dequantiser (same operation order as documented: ((q - min) * step) * range + lower); the
        # zero_median option is taken literally when given, inferred (|midpoint| < one step) only when absent.
        pmin, pmax = PRIM_RANGE[d[1]]
        lower, upper = d[2], d[3]
        step = 1.0 / (pmax - pmin)
        max_error = (upper - lower) * step
        zm = d[4] if len(d) > 4 else (abs((upper + lower) / 2.0) < max_error)
        out, seen = [], set()
        for q in PRIMS[d[1]][1]:
            f = float(q - pmin) * step
            f *= upper - lower
            f += lower
            snapped = zm and abs(f) < max_error
            if snapped:
                f = -0.0 if f < 0.0 else 0.0
            key = struct.pack(">d", f)
            if key not in seen:
                seen.add(key)
                v = Val(f, f, _both(d[1], q))
                if snapped:
                    # reference quantiser for a signed zero (half-step nudge towards the sign).  Where it does not give back the
                    # code the zero came from (midpoint of the range within one step of 0 but not 0) the signed-zero trick cannot
                    # tell the two centre codes apart: the value is just "zero", either centre code is an acceptable encoding.
                    z = (f + math.copysign((upper - lower) * step * 0.5, f) - lower) / (upper - lower) / step
                    if int(round(z)) + pmin != q:
                        centre = [c for c in PRIMS[d[1]][1] if c != q and abs(float(c - pmin) * step * (upper - lower) + lower) < max_error]
                        v.alt = [_both(d[1], c) for c in centre]
                out.append(v)
        return out
    if k in ("intenum", "intflag", "bitfield", "bfdc", "booladapter", "expr"):
        # (adapter leaves: wire-first over the primitive's alphabet -- or the complete 8-bit wire domain for "full" flag leaves)
        vals = _prim_vals(d[1], range(*((0, 256) if d[1] == "U8" else (-128, 128)))) if _full(d) else _prim_vals(d[1])
        if k == "intenum" and d[2]:
            vals = [v for v in vals if v.rich in (0, 1, 255)]  # strict: members only (independent of decode)
        return _adapt(build(d), vals, mapping=k in ("bitfield", "bfdc"))
    if k == "strenum":
        return _adapt(build(d), _str_vals(d[1], ["foo", "bar"]))
    # ---------------------------------------------------------------- unary
    if k == "optprefixed":
        return [Val(None, None, (b"\0", b"\0"))] + [Val(v.rich, v.pod, _cat(_same(b"\1"), v.enc), v.eof, twin_of=v)
                                                   for v in _dom(d[1], env) if v.rich is not None]
    if k == "ifpresent":
        return [Val(None, None, EMPTY, True)] + [Val(v.rich, v.pod, v.enc, True, twin_of=v)
                                                 for v in _dom(d[1], env) if v.rich is not None and v.enc[0]]
    if k == "coll":
        return _coll_dom(d, env)
    if k == "typedbytearray":
        mx = PRIM_RANGE[d[1]][1]
        out = []
        for v in _dom(d[2], env):
            p = _typed_payload(v, d[3])
            if p is None or len(p[0]) > mx:
                continue
            out.append(Val(v.rich, v.pod, _cat(_both(d[1], len(p[0])), p), twin_of=v))
        if d[3] and not any(v.rich is None for v in out):
            out.insert(0, Val(None, None, _both(d[1], 0)))
        return out
    if k == "typedfixed":
        return [Val(v.rich, v.pod, v.enc, twin_of=v) for v in _dom(d[2], env) if len(v.enc[0]) == d[1]]
    if k == "typedgreedy":
        out = []
        for v in _dom(d[1], env):
            p = _typed_payload(v, d[2])
            if p is not None:
                out.append(Val(v.rich, v.pod, p, True, twin_of=v))
        if d[2] and not any(v.rich is None for v in out):
            out.insert(0, Val(None, None, EMPTY, True))
        return out
    if k == "typedterm":
        terms = _terms(d[2])
        out = []
        for v in _dom(d[1], env):
            if d[3] and v.rich is None:
                continue
            p = _typed_payload(v, d[3])
            if p is None or any(t in p[0] or t in p[1] for t in terms):
                continue
            out.append(Val(v.rich, v.pod, _cat(p, _same(terms[0])), twin_of=v))
        if d[3]:
            out.insert(0, Val(None, None, EMPTY, True))  # None writes nothing at all: only valid at the end of the window
        return out
    if k == "dict":
        vals = _dom(d[2], env)
        if not d[1]:
            vals = [v for v in vals if len({repr(norm(e[0])) for e in v.rich}) == len(v.rich)]
        return _adapt(build(d), vals)
    # ---------------------------------------------------------------- n-ary
    if k == "tuple":
        rows = _seq_rows([c for c in d[1]], env, lambda row: [v.rich for v in row])
        return [Val([v.rich for v in r], [v.pod for v in r], _cat(*[v.enc for v in r]), any(v.eof for v in r),
                    [v.trich for v in r], [v.tpod for v in r]) for r in rows]
    if k in ("template", "dataclass", "dcderived"):
        members = _members(d)
        names = [n for n, _ in members]
        rows = _seq_rows([c for _, c in members], env, lambda row: {n: v.rich for n, v in zip(names, row)})
        out = []
        for r in rows:
            enc, eof = _cat(*[v.enc for v in r]), any(v.eof for v in r)
            # an absent OPTIONAL member may be spelled ``name: None`` or left out of the dict altogether -- same value, same bytes.
            # The twin leaves such keys out (and reverses the rest); with skip_missing the canonical (read-back) form omits them too.
            absent = [c[0] in OPTIONAL_KINDS and v.rich is None for (_, c), v in zip(members, r)]
            if k != "template":
                cls = _dataclass_for(d)
                cls = cls[1] if k == "dcderived" else cls
                out.append(Val(cls(**{n: v.rich for n, v in zip(names, r)}), {n: v.pod for n, v in zip(names, r)}, enc, eof,
                               cls(**{n: v.trich for n, v in zip(names, r)}), _rev({n: v.tpod for n, v, a in zip(names, r, absent) if not a})))
            else:
                skip = [d[2] and a for a in absent]
                out.append(Val({n: v.rich for n, v, s in zip(names, r, skip) if not s},
                               {n: v.pod for n, v, s in zip(names, r, skip) if not s}, enc, eof,
                               _rev({n: v.trich for n, v, a in zip(names, r, absent) if not a}),
                               _rev({n: v.tpod for n, v, a in zip(names, r, absent) if not a})))
        return out
    if k == "enumswitch":
        out = []
        for m, c in d[2]:
            for v in _dom(c, env):
                out.append(Val(dtypes.TaggedUnion(E8(m), v.rich), (E8(m).name, v.pod), _cat(_both(d[1], m), v.enc), v.eof,
                               dtypes.TaggedUnion(E8(m), v.trich), (E8(m).name, v.tpod)))
        return _thin(out, 2 * CAP)
    if k == "flagswitch":
        out = []
        choices = list(d[2])
        for mask in range(1 << len(choices)):
            sub = [ch for i, ch in enumerate(choices) if mask >> i & 1]
            rows = [[]]
            for _, c in sub:
                rows = [r + [v] for r in rows for v in _dom(c, env) if _seq_ok(r + [v])]
                rows = _thin(rows, 16, _row_ident)
            flags = sum(m for m, _ in sub)
            for r in rows:
                out.append(Val({F8(m): v.rich for (m, _), v in zip(sub, r)}, {F8(m).name: v.pod for (m, _), v in zip(sub, r)},
                               _cat(_both(d[1], flags), *[v.enc for v in r]), any(v.eof for v in r),
                               _rev({F8(m): v.trich for (m, _), v in zip(sub, r)}), _rev({F8(m).name: v.tpod for (m, _), v in zip(sub, r)})))
        return out
    if k == "lenswitch":
        int_keys = {n for n, _ in d[1] if n is not None}
        out = []
        for n, c in d[1]:
            for v in _dom(c, env):
                ln = len(v.enc[0])
                if (n is None and ln in int_keys) or (n is not None and ln != n):
                    continue
                out.append(Val(dtypes.TaggedUnion(ln, v.rich), (ln, v.pod), v.enc, True, dtypes.TaggedUnion(ln, v.trich), (ln, v.tpod)))
        return out
    if k == "optflagged":
        flags = int(env[-1][d[1]])
        if flags & d[3]:
            return [Val(v.rich, v.pod, v.enc, v.eof, twin_of=v) for v in _dom(d[4], env)]
        return [Val(None, None, EMPTY)]
    if k == "ctxswitch":
        sel = _lookup(env, d[1])
        opts = {o: c for o, c in d[2]}
        c = opts.get(sel, opts.get("*"))
        return [] if c is None else list(_dom(c, env))
    if k == "ctxadapter":
        sel = _lookup(env, d[1])
        opts = {o: a for o, a in d[3]}
        a = opts.get(sel, opts.get("*"))
        return [] if a is None else _adapt(_adapter(a), _dom(d[2], env))
    raise ValueError(f"unknown descriptor kind {k!r}")


def _seq_rows(children, env, mk_frame) -> List[List[Val]]:
    rows: List[List[Val]] = [[]]
    for c in children:
        new = []
        closed_vals = _dom(c, env + [None]) if _closed(c) else None
        for row in rows:
            vals = closed_vals if closed_vals is not None else _dom(c, env + [mk_frame(row)])
            for v in vals:
                r = row + [v]
                if _seq_ok(r):
                    new.append(r)
        rows = _thin(new, 4 * CAP, _row_ident)
    return rows


def _coll_dom(d, env) -> List[Val]:
    ln, c = d[1], d[2]
    ents = _dom(c, env + [[]])
    greedy = ln is None
    if greedy:
        ents = [e for e in ents if e.enc[0]]
    lists: List[List[Val]] = []
    if isinstance(ln, int):
        if ents:
            for r in range(len(ents)):
                lists.append([ents[(r + i) % len(ents)] for i in range(ln)])
    else:
        lists.append([])
        lists += [[e] for e in ents]
        if len(ents) >= 2:
            lists += [[ents[0], ents[1]], [ents[1], ents[0]], [ents[-1], ents[-1]]]
        if len(ents) >= 3:
            lists.append([ents[0], ents[1], ents[2]])
        if ents:
            lists.append([ents[0], ents[0]])
        if ln == "U8" and ents and _is_leaf(c) and len(ents[-1].enc[0]) <= 8:
            lists.append([ents[-1]] * 255)
    out = []
    for lst in lists:
        if not _seq_ok(lst):
            continue
        if isinstance(ln, str) and len(lst) > PRIM_RANGE[ln][1]:
            continue
        enc = _cat(*[v.enc for v in lst])
        if isinstance(ln, str):
            enc = _cat(_both(ln, len(lst)), enc)
        out.append(Val([v.rich for v in lst], [v.pod for v in lst], enc, greedy or any(v.eof for v in lst),
                       [v.trich for v in lst], [v.tpod for v in lst]))
    return out


def _okey(x) -> str:
    """Order-sensitive fingerprint (dict insertion order included) used to tell a twin from its canonical value."""
    if dataclasses.is_dataclass(x) and not isinstance(x, type):
        return "DC(" + ",".join(_okey(getattr(x, f.name)) for f in dataclasses.fields(x)) + ")"
    if isinstance(x, lazy_object_proxy.Proxy):
        return _okey(x.__wrapped__)
    if isinstance(x, dtypes.TaggedUnion):
        return "TU(" + _okey(x.tag) + "," + _okey(x.value) + ")"
    if isinstance(x, OrderedMultiDict):
        return "MD(" + ",".join(_okey(k) + ":" + _okey(v) for k, v in x.items(multi=True)) + ")"
    if isinstance(x, dict):
        return "{" + ",".join(_okey(k) + ":" + _okey(v) for k, v in x.items()) + "}"
    if isinstance(x, (list, tuple)) and not isinstance(x, dtypes.TupleCoord):
        return "[" + ",".join(_okey(v) for v in x) + "]"
    return repr(x)


MAPPING_ROOTS = ("template", "flagswitch", "bitfield", "bfdc", "dataclass", "dcderived")
OPTIONAL_KINDS = ("optprefixed", "optflagged")    # combinators with OPTIONAL = True: Template fetches them with values.get(name)


def order_variants(desc, val: Val) -> List[Tuple[Any, Any]]:
    """(rich, pod) variants of ``val`` that differ only in the key insertion order of order-insensitive mappings: every
    permutation of the root mapping's keys when it has <= 3 keys (reversed otherwise), plus the twin in which every
    nested mapping is reversed.  Each must be written to val.enc and read back equal to the canonical value."""
    d = T(desc)
    out, seen = [], {(_okey(val.rich), _okey(val.pod))}

    def add(r, p):
        key = (_okey(r), _okey(p))
        if key not in seen:
            seen.add(key)
            out.append((r, p))

    add(val.trich, val.tpod)
    if d[0] in MAPPING_ROOTS:
        def perms(x):
            if type(x) is not dict:
                return [x]
            items = list(x.items())
            if len(items) <= 3:
                return [dict(p) for p in itertools.permutations(items)]
            return [dict(reversed(items))]
        pr, pp = perms(val.rich), perms(val.pod)
        for i in range(max(len(pr), len(pp))):
            add(pr[i % len(pr)], pp[i % len(pp)])
        if d[0] in ("template", "dataclass", "dcderived"):
            # absent OPTIONAL members left out of the dict (spec order otherwise): each one alone, and all of them
            opt = [n for n, c in _members(d) if c[0] in OPTIONAL_KINDS]

            def drop(x, keys):
                return {k: v for k, v in x.items() if not (k in keys and v is None)} if type(x) is dict else x
            for keys in [[n] for n in opt] + [opt]:
                add(drop(val.rich, keys), drop(val.pod, keys))
    return out


def _is_leaf(d) -> bool:
    return not _children(d)


def classify(desc) -> str:
    vals = domain(desc, 10 ** 6)
    if not vals:
        return "empty"
    n = sum(1 for v in vals if v.eof)
    return "window-consuming" if n == len(vals) else ("self-delimiting" if n == 0 else "mixed")


# ------------------------------------------------------------------------------------------------ describe / site
_LABEL = {"prim": lambda d: d[1], "bytearray": lambda d: f"ByteArray({d[1]})", "bytesfixed": lambda d: f"BytesFixed({d[1]})",
          "bytesgreedy": lambda d: "BytesGreedy",
          "bytesterm": lambda d: "BytesTerminated(%s%s%s)" % (bytes(d[1]).hex(), "" if d[2] else ",noterm", "" if d[3] else ",noeof"),
          "str": lambda d: f"Str({d[1]}{'' if d[2] else ',nonull'})", "strfixed": lambda d: f"StrFixed({d[1]})",
          "cstr": lambda d: "CStr(%s%s%s%s)" % (bytes(d[1]).hex(), "" if d[2] else ",noterm", f",{d[3]}" if len(d) > 3 and d[3] else "",
                                                ",noeof" if len(d) > 4 and not d[4] else ""),
          "struct": lambda d: f"Struct({d[1]})", "forward": lambda d: "ForwardSerializable",
          "qvecs": lambda d: f"{d[1]}(component_scales)",
          "uuid": lambda d: "UUID", "vector3": lambda d: "Vector3", "vector4": lambda d: "Vector4", "vector3d": lambda d: "Vector3D",
          "qvec": lambda d: f"{d[1]}({d[2]},{d[3]})", "fpvec": lambda d: f"FixedPointVector3U16({d[1]},{d[2]},{d[3]})",
          "packedquat": lambda d: f"PackedQuat({d[1] if isinstance(d[1], str) else label(d[1])})", "null": lambda d: "Null",
          "qfloat": lambda d: f"QuantizedFloat({d[1]},{d[2]},{d[3]}{',zero_median=%s' % d[4] if len(d) > 4 else ''})", "fixedpoint": lambda d: f"FixedPoint({d[1]},{d[2]},{d[3]},{d[4]})",
          "intenum": lambda d: f"IntEnum({d[1]}{',strict' if d[2] else ''})", "intflag": lambda d: "IntFlag(%s)" % ",".join(str(x) for x in d[1:]),
          "bitfield": lambda d: f"BitField({d[1]},{d[2]}{'' if d[3] else ',noshift'})", "bfdc": lambda d: f"BitfieldDataclass({d[1]}{',' + d[2] if len(d) > 2 else ''})",
          "booladapter": lambda d: f"BoolAdapter({d[1]})", "expr": lambda d: f"ExprAdapter({d[1]}{',identity' if len(d) > 2 else ''})", "strenum": lambda d: "StringEnumAdapter",
          "optprefixed": lambda d: "OptionalPrefixed", "ifpresent": lambda d: "IfPresent",
          "coll": lambda d: "Collection(%s)" % ("greedy" if d[1] is None else (f"fixed{d[1]}" if isinstance(d[1], int) else d[1])),
          "typedbytearray": lambda d: "TypedByteArray(%s%s%s%s)" % (d[1], ",empty_is_none" if d[3] else "", ",lazy" if d[4] else "", _nct(d, 5)),
          "typedfixed": lambda d: "TypedBytesFixed(%s%s%s)" % (d[1], ",lazy" if d[3] else "", _nct(d, 4)),
          "typedgreedy": lambda d: "TypedBytesGreedy(%s)" % ",".join(
              x for x in ("empty_is_none" if d[2] else "", "lazy" if d[3] else "", _nct(d, 4)[1:]) if x),
          "typedterm": lambda d: "TypedBytesTerminated(%s)" % ",".join(
              x for x in (bytes(d[2]).hex(), "empty_is_none" if d[3] else "", "lazy" if d[4] else "", _nct(d, 5)[1:]) if x),
          "dict": lambda d: "MultiDictAdapter" if d[1] else "DictAdapter", "tuple": lambda d: "Tuple",
          "template": lambda d: "Template(skip_missing)" if d[2] else "Template", "dataclass": lambda d: "Dataclass", "dcderived": lambda d: f"Dataclass(derived,{d[3]})",
          "enumswitch": lambda d: f"EnumSwitch({d[1]})", "flagswitch": lambda d: f"FlagSwitch({d[1]})", "lenswitch": lambda d: "LengthSwitch",
          "optflagged": lambda d: f"OptionalFlagged({d[1]}&{d[3]})", "ctxswitch": lambda d: f"ContextSwitch({_keylabel(d[1])})",
          "ctxadapter": lambda d: f"ContextAdapter({_keylabel(d[1])})"}


def _keylabel(key) -> str:
    return ("root" if key[0] == "root" else f"up{key[0]}") + ("." if len(key) > 2 else "[") + str(key[1]) + ("" if len(key) > 2 else "]")


def _nct(d, i) -> str:
    return ",nochecktrailing" if len(d) > i and not d[i] else ""


def label(desc) -> str:
    d = T(desc)
    return _LABEL[d[0]](d)


def describe(desc) -> str:
    d = T(desc)
    kids = _children(d)
    if not kids:
        return label(d)
    return label(d) + "<" + ", ".join(describe(c) for c, _ in kids) + ">"


_GENERIC = {"prim": "Prim", "bytesfixed": "BytesFixed", "strfixed": "StrFixed", "typedfixed": "TypedBytesFixed"}


def _site_label(d) -> str:
    """label without incidental numbers (sizes chosen by the generator) so sites stay stable."""
    if d[0] == "typedfixed":
        return "TypedBytesFixed(%s)" % ",".join(x for x in ("lazy" if d[3] else "", _nct(d, 4)[1:]) if x) if d[3] or _nct(d, 4) else "TypedBytesFixed"
    if d[0] == "optflagged":
        return "OptionalFlagged"
    return label(d)


def site(desc) -> str:
    """Root combinator (with its mode parameters) and the labels of its direct children: 'Collection(greedy)<CStr(00)>'."""
    d = T(desc)
    kids = _children(d)
    if not kids:
        return _site_label(d)
    return _site_label(d) + "<" + ",".join(_site_label(c) for c, _ in kids) + ">"


def option_coverage(trees) -> Dict[str, List[str]]:
    """combinator class -> every distinct constructor-option combination (as label) occurring anywhere in ``trees``."""
    cov: Dict[str, set] = {}
    seen = set()

    def walk(d):
        if d in seen:
            return
        seen.add(d)
        lab = label(d)
        cov.setdefault(lab.split("(")[0].split("<")[0], set()).add(lab)
        for c, _ in _children(d):
            walk(c)
    for t in trees:
        walk(T(t))
    return {k: sorted(v) for k, v in sorted(cov.items())}


def subtrees(desc):
    """Closed proper subtrees (candidates for blame minimisation), innermost last."""
    d = T(desc)
    out = []
    for c, _ in _children(d):
        if _closed(c):
            out.append(c)
        out += subtrees(c)
    return out


# ------------------------------------------------------------------------------------------------ probes
def probes(desc) -> List[Probe]:
    d = T(desc)
    k = d[0]
    out: List[Probe] = []
    if k == "prim":
        if d[1] in PRIM_RANGE:
            lo, hi = PRIM_RANGE[d[1]]
            out += [Probe(hi + 1, "max+1"), Probe(lo - 1, "min-1")]
        elif d[1] == "F32":
            out.append(Probe(1e39, "f32-overflow"))
    elif k == "struct":
        chars = d[1].lstrip("<>!")
        out += [Probe(({"B": 1 << 8, "H": 1 << 16, "I": 1 << 32}[chars[0]],) + (0,) * (len(chars) - 1), "max+1"),
                Probe((0,) * (len(chars) - 1), "arity-1")]
    elif k == "bytearray" and PRIM_RANGE[d[1]][1] <= 0xFFFF:
        out.append(Probe(b"x" * (PRIM_RANGE[d[1]][1] + 1), "length-max+1"))
    elif k == "bytesfixed":
        out.append(Probe(b"x" * (d[1] + 1), "length+1"))
        if d[1] > 0:
            out.append(Probe(b"x" * (d[1] - 1), "length-1"))
    elif k == "str" and PRIM_RANGE[d[1]][1] <= 0xFFFF:
        out.append(Probe("x" * (PRIM_RANGE[d[1]][1] + (0 if d[2] else 1)), "length-max+1"))
    elif k == "strfixed":
        out += [Probe("x" * (d[1] + 1), "length+1"), Probe("é" * d[1], "utf8-length")] if d[1] else [Probe("x", "length+1")]
    elif k == "coll":
        ents = _dom(d[2], [[]])
        if ents and _closed(d):
            e = ents[-1].rich
            if isinstance(d[1], str) and PRIM_RANGE[d[1]][1] <= 255 and len(ents[-1].enc[0]) <= 64:
                out.append(Probe([e] * (PRIM_RANGE[d[1]][1] + 1), "count-max+1"))
            elif isinstance(d[1], int):
                out += [Probe([e] * (d[1] + 1), "count+1"), Probe([e] * (d[1] - 1), "count-1")]
    elif k == "tuple" and _closed(d):
        rows = _dom(d, [])
        if rows and len(d[1]) >= 2:
            out.append(Probe(list(rows[0].rich)[:-1], "arity-1"))
    elif k in ("bitfield", "bfdc"):
        if k == "bitfield":
            schema, shift, cls = BITFIELD_SCHEMAS[d[2]], d[3], None
        else:
            cls, shift, sid, _ = BFDC_LAYOUTS[d[2] if len(d) > 2 else "basic"]
            schema = BITFIELD_SCHEMAS[sid]
        base = {e[0]: (False if len(e) == 3 and e[2] == "bool" else 0) for e in schema}
        off = 0
        for i, ent in enumerate(schema):
            name, bits = ent[0], ent[1]
            if len(ent) == 3 and ent[2] == "bool":
                off += bits
                continue  # BoolAdapter coerces any value to 0/1: nothing is out of range
            if shift:
                bad_vals = [(1 << bits, "overflow"), (-1, "negative")]
            else:
                bad_vals = [(1 << (off + bits), "overflow"), (-1, "negative")]
                if off > 0:  # bits below the member's own offset would be OR-ed into the lower neighbours
                    bad_vals += [(1, "low-bit0"), (1 << (off - 1), "low-bit-adjacent"), ((1 << off) | (1 << (off - 1)), "straddle-low")]
                    if bits > 1:
                        bad_vals.append((((1 << bits) - 1) << off | 1, "straddle-all"))
            for bv, why in {bv: (bv, why) for bv, why in reversed(bad_vals)}.values():
                v = dict(base)
                v[name] = bv
                out.append(Probe(v if cls is None else cls(**v), f"{why}:{name}"))
                if cls is not None:
                    out.append(Probe(v, f"{why}:{name}:pod"))
            off += bits
    elif k == "typedbytearray" and _closed(d):
        mx = PRIM_RANGE[d[1]][1]
        for v in _dom(d[2], []):
            if len(v.enc[0]) > mx:
                out.append(Probe(v.rich, "payload-length-max+1"))
                break
    elif k == "typedfixed" and _closed(d):
        for v in _dom(d[2], []):
            if len(v.enc[0]) != d[1] and not (v.rich is None):
                out.append(Probe(v.rich, "payload-length-mismatch"))
                break
    return out


# ------------------------------------------------------------------------------------------------ enumeration
def P(name):
    return ("prim", name)


U8 = P("U8")
CSTR = ("cstr", (0,), True)
LEAVES: List[tuple] = (
    [P(n) for n in PRIMS]
    + [("bytearray", "U8"), ("bytearray", "U16"), ("bytearray", "S8"), ("bytesfixed", 0), ("bytesfixed", 3), ("bytesgreedy",),
       ("bytesterm", (0,), True, True), ("bytesterm", (32, 10), True, True), ("bytesterm", (0,), False, True), ("bytesterm", (0,), True, False),
       ("str", "U8", True), ("str", "U8", False), ("str", "U16", True), ("strfixed", 4),
       CSTR, ("cstr", (32, 9, 13, 10), True), ("cstr", (10,), False),
       # constructor-option sweep, one option at a time (+ the pairs that interact): CStr encoding / eof_terminates
       ("cstr", (0,), True, "utf8"), ("cstr", (0,), True, "latin1"), ("cstr", (0,), True, "cp1252"), ("cstr", (0,), True, "ascii"),
       ("cstr", (10,), True, "utf-16-le"), ("cstr", (10,), False, "latin1"), ("cstr", (32, 10), True, "cp1252"),
       ("cstr", (0,), True, None, False), ("cstr", (0,), True, "latin1", False), ("cstr", (10,), False, "utf-16-le"),
       ("bytesterm", (32, 9, 13, 10), False, True), ("bytesterm", (10, 0), True, False),
       ("bytearray", "S16"), ("bytearray", "U32"), ("bytesfixed", 1), ("bytesfixed", 16),
       ("str", "U16", False), ("str", "U32", True), ("str", "S8", True), ("strfixed", 1), ("strfixed", 16),
       ("struct", "BH"), ("struct", ">H"), ("struct", "<I"), ("struct", "!BBH"),
       ("qfloat", "U8", -1.0, 1.0, False), ("qfloat", "S8", -1.0, 1.0, True), ("qfloat", "U16", -1.0, 1.0, True),
       ("qvecs", "Vector3U16", ((0.0, 1.0), (0.0, 1.0), (0.0, 4096.0))), ("qvecs", "Vector2U16", ((-1.0, 1.0), (0.0, 255.0))),
       ("expr", "U8", "id"), ("strenum", ("cstr", (0,), True, "latin1")),
       ("uuid",), ("vector3",), ("vector4",), ("vector3d",),
       ("qvec", "Vector3U16", -1.0, 1.0), ("qvec", "Vector2U16", 0.0, 1.0), ("qvec", "Vector4U16", -64.0, 64.0),
       ("qvec", "Vector3U8", -1.0, 1.0), ("qvec", "Vector4U8", 0.0, 1.0),
       ("fpvec", 8, 7, True), ("fpvec", 8, 8, False), ("packedquat", "vector3"), ("packedquat", "vector4"), ("null",),
       # PackedQuat over every child kind the library uses (templates.py / llanim.py) + the remaining quantised 4-vectors
       ("packedquat", ("qvec", "Vector4U16", -1.0, 1.0)), ("packedquat", ("qvec", "Vector4U8", -1.0, 1.0)),
       ("packedquat", ("qvec", "Vector3U16", -1.0, 1.0)), ("packedquat", ("qvec", "Vector3U16", -5.0, 5.0)),
       ("packedquat", ("qvec", "Vector3U8", -1.0, 1.0)), ("packedquat", ("qvec", "Vector4U16", -64.0, 64.0)),
       ("qfloat", "U8", 0.0, 1.0), ("qfloat", "U8", -1.0, 1.0), ("qfloat", "S8", -1.0, 1.0), ("qfloat", "U16", -2.0, 1.0),
       ("qfloat", "S16", -1.0, 1.0), ("qfloat", "U16", -64.0, 64.0),
       ("fixedpoint", "U16", 8, 8, False), ("fixedpoint", "U16", 8, 7, True), ("fixedpoint", "U8", 4, 4, False),
       ("intenum", "U8", False), ("intenum", "U8", True), ("intenum", "U16", False), ("intenum", "S8", False),
       ("intflag", "U8"), ("intflag", "S8"), ("intflag", "U16"),
       # flag class with NONE=0, an alias, multi-bit combinations and a member-less mask; "full" = complete 8-bit wire domain
       ("intflag", "U8", "mask"), ("intflag", "U16", "mask"), ("intflag", "U8", "mask", "full"), ("intflag", "S8", "mask", "full"),
       ("intflag", "U8", "F8", "full"), ("intflag", "S8", "F8", "full"),
       ("bitfield", "U8", "full8", True), ("bitfield", "U8", "full8", False), ("bitfield", "U16", "part16", True),
       ("bitfield", "U8", "adapt8", True), ("bfdc", "U8"), ("booladapter", "U8"), ("expr", "U8"),
       ("bitfield", "U8", "media8", False), ("bitfield", "U8", "parcel8", False), ("bitfield", "U16", "part16", False),
       ("bfdc", "U8", "media"), ("bfdc", "U8", "parcel"),      # MEDIA_FLAGS-like and ParcelGridInfo-like real-world layouts
       ("strenum", CSTR), ("strenum", ("str", "U8", True))]
)
# QuantizedFloat: tri-state zero_median {absent, True, False} x {symmetric, asymmetric, nearly symmetric (templates.TE_S16_COORD)}
# x {U8, S8, U16, S16}; the primitive alphabets contain both ends and the two codes around the middle of the code range
LEAVES += [("qfloat", prim, lo, hi) + zm for prim in ("U8", "S8", "U16", "S16")
           for lo, hi in ((-1.0, 1.0), (-2.0, 1.0), (-1.000030518509476, 1.0)) for zm in ((), (True,), (False,))]
BASIS: List[tuple] = [U8, P("S16"), ("bytearray", "U8"), CSTR, ("bytesgreedy",), ("uuid",), ("intenum", "U8", False),
                      ("bytesterm", (0,), False, True)]
BASIS2: List[tuple] = [U8, ("bytearray", "U8"), CSTR, ("bytesgreedy",)]
KEYS: List[tuple] = [U8, CSTR, ("uuid",), ("intenum", "U8", False)]
FLAGS = ("intflag", "U8")


def _first_len(c) -> Optional[int]:
    vals = _dom(T(c), []) if _closed(T(c)) else []
    return len(vals[0].enc[0]) if vals else None


def unary(c, leaf: bool = False) -> List[tuple]:
    out = [("optprefixed", c), ("ifpresent", c), ("coll", "U8", c), ("coll", 2, c), ("coll", None, c),
           ("typedbytearray", "U8", c, False, False), ("typedbytearray", "U8", c, True, False), ("typedbytearray", "U8", c, False, True),
           ("typedgreedy", c, False, False), ("typedgreedy", c, True, True),
           ("typedterm", c, (0,), False, False), ("typedterm", c, (0,), True, False), ("typedterm", c, (10,), False, True)]
    if leaf:  # remaining option combinations of the typed-bytes wrappers (each-choice + the empty_is_none x lazy pairs), leaf children only
        out += [("typedbytearray", "U8", c, True, True), ("typedbytearray", "U8", c, False, False, False), ("typedbytearray", "U8", c, True, True, False),
                ("typedgreedy", c, True, False), ("typedgreedy", c, False, True), ("typedgreedy", c, False, False, False),
                ("typedterm", c, (0,), True, True), ("typedterm", c, (32, 10), False, False), ("typedterm", c, (0,), False, False, False),
                ("forward", c)]
    if leaf:
        out += [("coll", "U16", c), ("typedbytearray", "U16", c, False, False), ("typedbytearray", "S8", c, False, False)]
    n = _first_len(c)
    if n is not None:
        out += [("typedfixed", n, c, False), ("typedfixed", n, c, True)]
        if leaf:
            out.append(("typedfixed", n, c, False, False))
    return out


def nary(a, b, full: bool = True) -> List[tuple]:
    out = [("tuple", (a, b)), ("template", (("x", a), ("y", b)), False),
           ("enumswitch", "U8", ((0, a), (1, b))), ("flagswitch", "U8", ((1, a), (2, b))),
           ("tuple", (U8, ("ctxswitch", (0, 0), ((0, a), (1, b)))))]
    if full:
        out += [("dataclass", (("x", a), ("y", b))),
                ("template", (("k", U8), ("v", ("ctxswitch", (0, "k"), ((0, a), ("*", b))))), False),
                ("template", (("flags", FLAGS), ("x", ("optflagged", "flags", FLAGS, 1, a)), ("y", ("optflagged", "flags", FLAGS, 2, b))), False),
                ("template", (("flags", U8), ("x", ("optflagged", "flags", U8, 2, a)), ("y", ("optflagged", "flags", U8, 128, b))), True)]
        n = _first_len(a)
        if n is not None:
            out.append(("lenswitch", ((n, a), (None, b))))
    return out


def families() -> List[tuple]:
    """Depth-3 interaction families named by the property (and the dict/context adapters, which need a fixed inner shape)."""
    out: List[tuple] = []
    for k in KEYS:
        for v in BASIS:
            pair = ("coll", "U8", ("tuple", (k, v)))
            out += [("dict", False, pair), ("dict", True, pair)]
    ADS = ((0, ("a_bool",)), (1, ("a_expr",)), (2, ("a_enum",)), ("*", ("a_id",)))
    out += [("tuple", (U8, ("ctxadapter", (0, 0), U8, ADS))),
            ("template", (("k", U8), ("v", ("ctxadapter", (0, "k"), U8, ADS))), False),
            ("template", (("k", U8), ("vs", ("coll", "U8", ("ctxadapter", (1, "k"), U8, ADS)))), False)]
    # context-dependent entries inside every collection framing: parent (ctx._), grand-parent (ctx._._) and root lookups,
    # item and attribute access, scalar and tuple entries, ContextSwitch and ContextAdapter
    MASKF = ("intflag", "U8", "mask")
    for a in BASIS:
        for b in BASIS2:
            opts, opts2 = ((0, a), (1, b)), ((0, b), ("*", a))
            for ln in ("U8", 2, 3, None):
                entries = [("ctxswitch", (1, "k"), opts), ("ctxswitch", (1, "k", "attr"), opts2), ("ctxswitch", ("root", "k", "attr"), opts),
                           ("tuple", (U8, ("ctxswitch", (2, "k", "attr"), opts))), ("tuple", (("ctxswitch", ("root", "k"), opts2), U8))]
                for e in entries:
                    out.append(("template", (("k", U8), ("items", ("coll", ln, e))), False))
                out.append(("tuple", (U8, ("coll", ln, ("ctxswitch", (1, 0), opts)))))
                out.append(("dataclass", (("k", U8), ("items", ("coll", ln, ("ctxswitch", ("root", "k", "attr"), opts))))))
            out.append(("template", (("k", U8), ("rows", ("coll", "U8", ("coll", 2, ("ctxswitch", (2, "k"), opts))))), False))
            out.append(("template", (("k", U8), ("rows", ("coll", 2, ("coll", "U8", ("ctxswitch", ("root", "k"), opts))))), False))
            out.append(("template", (("k", U8), ("blob", ("typedbytearray", "U8", ("coll", 2, ("ctxswitch", (1, "k"), opts)), False, False))), False))
        out.append(("template", (("flags", MASKF), ("x", ("optflagged", "flags", MASKF, 1, a)), ("y", ("optflagged", "flags", MASKF, 0xC0, U8))), False))
    for ln in ("U8", 2, None):
        ADS2 = ((0, ("a_bool",)), (1, ("a_expr",)), ("*", ("a_id",)))
        out += [("template", (("k", U8), ("vs", ("coll", ln, ("ctxadapter", (1, "k"), U8, ADS2)))), False),
                ("template", (("k", U8), ("vs", ("coll", ln, ("tuple", (("ctxadapter", ("root", "k", "attr"), U8, ADS2), U8))))), False)]
    # a dataclass extending another serializable dataclass, specs built base-first and derived-first (own class pair each)
    for a in BASIS:
        for b in BASIS2:
            for order in ("base-first", "derived-first"):
                out.append(("dcderived", (("x", U8), ("p", a)), (("y", b), ("z", P("S16"))), order))
        for order in ("base-first", "derived-first"):
            out.append(("coll", "U8", ("dcderived", (("p", a),), (("q", U8),), order)))
            out.append(("dcderived", (("p", ("optprefixed", a)),), (("q", ("optprefixed", U8)), ("r", U8)), order))
        # templates whose OPTIONAL members may be left out of the value dict, at several nesting depths
        out.append(("template", (("a", ("optprefixed", a)), ("b", U8), ("c", ("optprefixed", CSTR))), False))
        out.append(("template", (("a", ("optprefixed", a)), ("b", U8), ("c", ("optprefixed", CSTR))), True))
        out.append(("coll", "U8", ("template", (("o", ("optprefixed", a)), ("n", U8)), False)))
        out.append(("typedbytearray", "U8", ("template", (("n", U8), ("o", ("optprefixed", a))), False), False, False))
    out += [("tuple", ()), ("template", (), False), ("lenswitch", ((1, U8), (2, P("U16")), (16, ("uuid",))))]
    for a in BASIS:
        out += [("tuple", (a,)), ("tuple", (U8, P("S16"), a)), ("template", (("only", a),), False),
                ("dataclass", (("n", U8), ("fwd", ("forward", a)))), ("enumswitch", "U16", ((0, a), (1, U8), (255, CSTR))),
                ("flagswitch", "U16", ((1, U8), (2, CSTR), (8, a)))]
    for a in BASIS:
        for b in BASIS2:
            sw = ("ctxswitch", (1, "k"), ((0, a), (1, b)))
            sw2 = ("ctxswitch", (1, "k"), ((0, a), ("*", b)))
            dc = ("dataclass", (("x", a), ("y", b)))
            pair = ("tuple", (a, b))
            out.append(("template", (("k", U8), ("items", ("coll", "U8", sw))), False))      # switch reads a sibling of its collection
            out.append(("template", (("k", U8), ("blob", ("typedbytearray", "U8", ("coll", None, sw2), False, False))), False))
            out.append(("template", (("n", U8), ("items", ("coll", "U8", ("optprefixed", a))), ("tail", b)), False))  # optional/collection/template
            out.append(("typedbytearray", "U8", ("coll", None, pair), False, False))           # greedy inside length-prefixed
            out.append(("coll", "U8", ("typedbytearray", "U8", ("coll", None, a), True, False)))
            out.append(("tuple", (b, ("coll", None, ("tuple", (U8, a))))))
            out.append(("dataclass", (("a", U8), ("b", ("typedbytearray", "U8", dc, False, True)))))  # lazy typed bytes
            out.append(("dataclass", (("n", U8), ("js", ("dict", True, ("coll", "U16", ("tuple", (CSTR, dc))))))))
            out.append(("tuple", (U8, ("typedterm", pair, (10,), True, False))))
            out.append(("tuple", (a, ("ifpresent", ("tuple", (U8, b))))))
            out.append(("lenswitch", ((2, P("U16")), (4, ("coll", 2, P("U16"))), (None, pair))))
    return out


def enumerate_specs(depth: float = 1, with_families: bool = True) -> List[tuple]:
    """Closed spec trees: depth 0 = every leaf; depth 1 = every unary wrapper over every leaf + every n-ary form over
    BASIS x BASIS; depth 2 = every unary wrapper over the depth-1 trees built from BASIS children + tuple/template/
    enum-switch/flag-switch/context-switch pairs of such a tree with a BASIS2 leaf (both orders); families() on top.
    Trees whose derived domain is empty (ill-typed compositions, e.g. a greedy member that is not in tail position)
    are *not* removed here -- callers drop them when ``domain()`` is empty."""
    out: List[tuple] = list(LEAVES)
    if depth >= 1:
        for leaf in LEAVES:
            out += unary(leaf, leaf=True)
        for a in BASIS:
            for b in BASIS:
                out += nary(a, b)
    if depth >= 1.5:  # 1.5 = only the unary wrappers over the basis-built depth-1 trees (quick tier of C08)
        d1b: List[tuple] = []
        for b in BASIS:
            d1b += unary(b)
        for a in BASIS:
            for b in BASIS:
                d1b += nary(a, b)
        for t in d1b:
            out += unary(t)
            for b in (BASIS2 if depth >= 2 else ()):
                out += nary(t, b, full=False) + nary(b, t, full=False)
    if with_families:
        out += families()
    seen, uniq = set(), []
    for d in out:
        d = T(d)
        if d not in seen:
            seen.add(d)
            uniq.append(d)
    return uniq

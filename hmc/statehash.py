"""Generic canonical forms of live implementation objects, built from vars() instead of naming (private) fields, so that
behaviour-preserving refactorings of the implementation (renamed private attributes, deque <-> list, dict <-> OrderedDict)
do not break a harness's canon()/observe()."""
from __future__ import annotations

from typing import Any


def freeze(v: Any, depth: int = 0) -> Any:
    if depth > 8:
        return repr(v)
    if isinstance(v, (int, float, str, bytes, bool, type(None))):
        return v
    if isinstance(v, dict):
        return ("map",) + tuple((freeze(k, depth + 1), freeze(x, depth + 1)) for k, x in v.items())
    if isinstance(v, (list, tuple)) or type(v).__name__ == "deque":
        # a container's bound is behaviour (what gets evicted next), so it is part of the state identity: two states that differ
        # only in it must not be merged by the search (an unbounded window after clear() would otherwise hide behind a bounded one)
        bound = getattr(v, "maxlen", None)
        return ("seq", bound) + tuple(freeze(x, depth + 1) for x in v)
    if isinstance(v, (set, frozenset)):
        return ("set",) + tuple(sorted(repr(x) for x in v))
    return repr(v)


def obj_state(o: Any, skip=()) -> Any:
    """Whole instance state of `o` (sorted by attribute name), values frozen; attributes in `skip` are left out."""
    d = getattr(o, "__dict__", None)
    if d is None:
        names = [n for c in type(o).__mro__ for n in getattr(c, "__slots__", ())]
        d = {n: getattr(o, n) for n in names if hasattr(o, n)}
    return tuple(sorted((k, freeze(v)) for k, v in d.items() if k not in skip))

"""Virtual asyncio loop + virtual clock (DESIGN.md §2.3).

* ``VLoop`` is a ``BaseEventLoop`` with no selector whose ``time()`` is a number the harness owns.  The harness decides
  when ready callbacks run (``run_ready``) and when timers fire (``advance``), so task scheduling and timer order are
  explorer choices, never the OS's.
* ``install(loop)`` makes it the current *and* running loop (so ``asyncio.Future()``, ``create_task``,
  ``get_running_loop`` inside library code all bind to it) and swaps the ``dt`` name inside the given modules for a shim
  whose ``datetime.now()`` follows the loop's virtual time.  ``uninstall()`` restores everything.

Typical use inside a harness ``fresh()``::

    loop = VLoop(); ctx = install(loop, clock_modules=[hippolyzer.lib.base.message.circuit])
    ... build objects ...           # keep `loop`/`ctx` on the world; call ctx.uninstall() is optional (next install replaces)
    loop.run_ready()                # run callbacks/tasks until nothing is ready (timers do NOT fire)
    loop.advance(3.1)               # fire every timer due within 3.1 virtual seconds, in order, running ready work after each
"""
from __future__ import annotations

import asyncio
import datetime as _real_dt
import gc
import heapq
from asyncio import events
from typing import Any, List, Optional


class VLoop(asyncio.BaseEventLoop):
    def __init__(self):
        super().__init__()
        self._vtime = 0.0
        self.exceptions: List[Any] = []
        self.set_exception_handler(self._on_exception)
        self.max_callbacks = 100_000

    # -- BaseEventLoop plumbing that normally needs a selector --------------------------------------
    def time(self) -> float:
        return self._vtime

    def _write_to_self(self):
        pass

    def _process_events(self, event_list):
        pass

    def _on_exception(self, loop, context):
        self.exceptions.append({"message": context.get("message"), "exception": repr(context.get("exception"))})

    # -- harness-facing controls -------------------------------------------------------------------
    def run_one(self) -> bool:
        """Run exactly one ready callback (FIFO). Returns False if none was ready."""
        while self._ready:
            h = self._ready.popleft()
            if h._cancelled:
                continue
            h._run()
            return True
        return False

    def run_ready(self) -> int:
        """Run ready callbacks until none is left (timers are not touched). Returns the number run."""
        n = 0
        while self.run_one():
            n += 1
            if n > self.max_callbacks:
                raise RuntimeError("VLoop.run_ready: livelock (callbacks keep scheduling callbacks)")
        return n

    def next_timer(self) -> Optional[float]:
        while self._scheduled and self._scheduled[0]._cancelled:
            h = heapq.heappop(self._scheduled)
            h._scheduled = False
        return self._scheduled[0]._when if self._scheduled else None

    def advance(self, delta: float) -> int:
        """Advance virtual time by delta, firing due timers in deadline order and draining ready work after each."""
        end = self._vtime + delta
        fired = 0
        self.run_ready()
        while True:
            when = self.next_timer()
            if when is None or when > end + 1e-9:
                break
            self._vtime = max(self._vtime, when)
            h = heapq.heappop(self._scheduled)
            h._scheduled = False
            if not h._cancelled:
                self._ready.append(h)
                fired += 1
            self.run_ready()
            if fired > self.max_callbacks:
                raise RuntimeError("VLoop.advance: timer livelock")
        self._vtime = end
        return fired

    def pending_timers(self) -> int:
        return sum(1 for h in self._scheduled if not h._cancelled)

    def collect_exceptions(self) -> List[Any]:
        gc.collect(1)
        out, self.exceptions = self.exceptions, []
        return out

    def run_coro(self, coro, max_time: float = 0.0):
        """Drive a coroutine to completion on this loop (ready work, plus timers up to max_time virtual seconds)."""
        task = self.create_task(coro)
        self.run_ready()
        if not task.done() and max_time:
            self.advance(max_time)
        if not task.done():
            task.cancel()
            self.run_ready()
            raise TimeoutError("coroutine did not finish under the virtual loop")
        return task.result()


class _ClockShim:
    """Stands in for the `datetime` *module* (imported as `dt`) inside library modules."""

    def __init__(self, loop: VLoop, base: _real_dt.datetime):
        shim = self
        self._loop, self._base = loop, base
        self.timedelta = _real_dt.timedelta
        self.timezone = _real_dt.timezone
        self.date = _real_dt.date
        self.time = _real_dt.time

        class _DT(_real_dt.datetime):
            @classmethod
            def now(cls, tz=None):
                t = shim._base + _real_dt.timedelta(seconds=shim._loop.time())
                return t if tz is None else t.replace(tzinfo=_real_dt.timezone.utc).astimezone(tz)

            @classmethod
            def utcnow(cls):
                return shim._base + _real_dt.timedelta(seconds=shim._loop.time())

        self.datetime = _DT


class Installed:
    def __init__(self, loop, patched):
        self.loop, self._patched = loop, patched

    def uninstall(self):
        for mod, name, old in self._patched:
            setattr(mod, name, old)
        self._patched = []
        events._set_running_loop(None)
        try:
            asyncio.set_event_loop(None)
        except Exception:
            pass


_CURRENT: Optional[Installed] = None


def install(loop: VLoop, clock_modules=(), clock_attr: str = "dt",
            base: _real_dt.datetime = _real_dt.datetime(2020, 1, 1, 0, 0, 0)) -> Installed:
    """Make `loop` current+running and point `<module>.dt` of each given module at the virtual clock."""
    global _CURRENT
    if _CURRENT is not None:
        _CURRENT.uninstall()
    events._set_running_loop(None)
    asyncio.set_event_loop(loop)
    events._set_running_loop(loop)
    shim = _ClockShim(loop, base)
    patched = []
    for mod in clock_modules:
        patched.append((mod, clock_attr, getattr(mod, clock_attr)))
        setattr(mod, clock_attr, shim)
    _CURRENT = Installed(loop, patched)
    return _CURRENT


def uninstall():
    global _CURRENT
    if _CURRENT is not None:
        _CURRENT.uninstall()
        _CURRENT = None

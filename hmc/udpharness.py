"""Shared world builder for the UDP-proxy seam (C06, C07).

Seam: ``InterceptingLLUDPProxyProtocol.datagram_received`` on real protocol / SessionManager / Session / ProxiedRegion /
ProxiedCircuit objects, a real ``SOCKS5UDPTransport`` on top of a capturing stand-in for asyncio's datagram transport
(``sendto`` appends to ``world.sends``), the virtual loop of hmc.vloop installed as current+running loop, ``uuid.uuid4``
replaced by a counter, and every piece of ``AddonManager`` class-level state reset.  Construction follows
hippolyzer/lib/proxy/test_utils.py (BaseProxyTest) minus the real event loop and the shortcut ``_setup_region_circuit``:
circuits are opened the way a viewer opens them, by a UseCircuitCode datagram.

Addresses: viewers and simulators are deliberately on one IP (the code's address-learning shortcut decides direction
by ``far_to_near_map`` first and by source IP second).
"""
from __future__ import annotations

import gc
import struct
import uuid as _uuid
from typing import Any, Dict, List, Optional, Tuple

import hippolyzer.lib.base.message.circuit as _circuit_mod
from hippolyzer.lib.base.datatypes import UUID
from hippolyzer.lib.base.message.message import Block, Message
from hippolyzer.lib.base.message.udpdeserializer import UDPMessageDeserializer
from hippolyzer.lib.base.message.udpserializer import UDPMessageSerializer
from hippolyzer.lib.base.network.transport import Direction
from hippolyzer.lib.base.settings import Settings
from hippolyzer.lib.proxy.addons import AddonManager
from hippolyzer.lib.proxy.lludp_proxy import InterceptingLLUDPProxyProtocol
from hippolyzer.lib.proxy.sessions import SessionManager
from hippolyzer.lib.proxy.settings import ProxySettings
from hippolyzer.lib.proxy.task_scheduler import TaskScheduler

from . import vloop

IP = "127.0.0.1"
TCP_PEERS = [(IP, 50001), (IP, 50002)]      # SOCKS TCP control connections (only the IP is ever compared)
VIEWERS = [(IP, 1001), (IP, 1002)]          # viewers' UDP source addresses
SIMS = [(IP, 13000), (IP, 13001),           # main region, neighbour region (shared by both sessions on purpose)
        (IP, 13002)]                         # not registered at start: where a known region handle is re-announced later
HOOK_LOG: List[Any] = []                    # written by addon *files* of the C07 hot-reload family
UNREGISTERED_SIM = (IP, 13009)              # same IP, never registered as a region
FOREIGN_HOST = ("10.9.8.7", 13000)          # a host on another IP with a simulator's port
CIRCUIT_CODE = 1234

_SOCKS_HDR = struct.Struct("!HBB4sH")
_ORIG_UUID4 = _uuid.uuid4


# ---- environment isolation (no behaviour of the seam is replaced) ------------------------------------------------
# * ProxyInventoryManager.__init__ scans $HOME for viewer cache directories: host-dependent input -> empty.
# * MessageDotXML() re-parses the same constant message.xml for every association (2 ms): one shared, read-only
#   instance per process (still the real class and the real data of the tree under test).
# * SessionManager builds multiprocessing queues/events for the HTTP side (OS resources, 1.5 ms): inert stand-in; the
#   UDP seam never touches flow_context.
import hippolyzer.lib.proxy.inventory_manager as _inv_mod
import hippolyzer.lib.proxy.lludp_proxy as _lludp_mod
import hippolyzer.lib.proxy.sessions as _sessions_mod

_inv_mod.iter_viewer_cache_dirs = lambda: iter(())
_REAL_MESSAGE_XML_CLS = _lludp_mod.MessageDotXML
_SHARED_MESSAGE_XML = []


def _shared_message_xml():
    if not _SHARED_MESSAGE_XML:
        _SHARED_MESSAGE_XML.append(_REAL_MESSAGE_XML_CLS())
    return _SHARED_MESSAGE_XML[0]


_lludp_mod.MessageDotXML = _shared_message_xml


class _InertFlowContext:
    def __init__(self):
        self.from_proxy_queue = self.to_proxy_queue = self.shutdown_signal = self.mitmproxy_ready = None


class _InertEvent:
    def __init__(self):
        self._f = False

    def set(self):
        self._f = True

    def is_set(self):
        return self._f


_sessions_mod.HTTPFlowContext = _InertFlowContext
_sessions_mod.multiprocessing = type("_mp", (), {"Event": staticmethod(_InertEvent)})


def session_uuid(i: int, what: int) -> UUID:
    """Deterministic ids: what 0 = session id, 1 = secure session id, 2 = agent id."""
    return UUID(int=0x5E550000_0000_4000_8000_000000000000 + (i << 8) + what)


UNKNOWN_SESSION_ID = UUID(int=0x5E55FFFF_0000_4000_8000_0000000000FF)


def socks_wrap(payload: bytes, far: Tuple[str, int], rsv: int = 0, frag: int = 0, atyp: int = 1) -> bytes:
    """What a viewer puts in front of a datagram (RFC 1928 §7), written with struct -- independent of the code under test."""
    import socket
    if atyp == 1:
        addr = socket.inet_aton(far[0])
    elif atyp == 3:
        name = far[0].encode() if isinstance(far[0], str) else far[0]
        addr = bytes([len(name)]) + name
    elif atyp == 4:
        addr = b"\x00" * 15 + b"\x01"
    else:
        addr = b""
    return struct.pack("!HBB", rsv, frag, atyp) + addr + struct.pack("!H", far[1]) + payload


def socks_unwrap(data: bytes) -> Optional[Tuple[Tuple[str, int], bytes, Tuple[int, int, int]]]:
    """Reference parse of an IPv4 SOCKS5 UDP header; None if the datagram is too short for one."""
    import socket
    if len(data) < 10:
        return None
    rsv, frag, atyp, ip, port = _SOCKS_HDR.unpack(data[:10])
    return (socket.inet_ntoa(ip), port), data[10:], (rsv, frag, atyp)


MAX_UDP_PAYLOAD = 65507


class CapSock:
    """Stand-in for asyncio's DatagramTransport below SOCKS5UDPTransport: records sendto().

    Like _SelectorDatagramTransport it (a) silently discards sendto() once closed and (b) turns an OSError of the socket
    into ``protocol.error_received(exc)`` instead of raising: a datagram above the UDP maximum is refused by the OS with
    EMSGSIZE (recorded in ``world.refused``, never in ``world.sends``)."""

    def __init__(self, world: "World", assoc: int):
        self.world, self.assoc, self.closed = world, assoc, False
        self.proto = None

    def sendto(self, data, addr=None):
        if self.closed:
            self.world.sent_after_close.append((self.assoc, len(data), addr))
            return
        if len(data) > MAX_UDP_PAYLOAD:
            import errno
            self.world.refused.append((self.assoc, len(data), addr))
            if self.proto is not None:
                self.proto.error_received(OSError(errno.EMSGSIZE, "Message too long"))
            return
        self.world.sends.append((self.assoc, bytes(data), addr))

    def close(self):
        self.closed = True

    def abort(self):
        self.closed = True

    def get_extra_info(self, name, default=None):
        if name == "sockname":
            return (IP, 40000 + self.assoc)
        return default


class ControlWriter:
    """In-memory stand-in for the StreamWriter of one SOCKS5 control (TCP) connection."""

    def __init__(self, peer):
        self.peer, self.written, self.closed = peer, [], False

    def get_extra_info(self, name, default=None):
        return self.peer if name == "peername" else default

    def write(self, data):
        self.written.append(bytes(data))

    async def drain(self):
        return None

    def close(self):
        self.closed = True

    def is_closing(self):
        return self.closed


class World:
    def __init__(self):
        self.loop: vloop.VLoop = None
        self.ctx = None
        self.sm: SessionManager = None
        self.sessions: List[Any] = []
        self.protos: List[InterceptingLLUDPProxyProtocol] = []
        self.sends: List[Tuple[int, bytes, Any]] = []
        self.refused: List[Tuple[int, int, Any]] = []          # sendto() the OS refused (EMSGSIZE): (assoc, size, addr)
        self.sent_after_close: List[Tuple[int, int, Any]] = []  # sendto() on a closed transport (discarded)
        self.escaped: List[str] = []          # exception type names that escaped datagram_received
        self.violations: List[Dict[str, Any]] = []
        self.circuit_objs: List[Any] = []     # circuits in creation order (identity -> small index for snapshots)
        self.controls: List[Any] = []         # via_socks: (StreamReader, ControlWriter, handle_connection task) per association
        self.addons: List[Any] = []

    # ---- driving ----------------------------------------------------------------------------------
    def deliver(self, assoc: int, data: bytes, source: Tuple[str, int]):
        """One datagram into one association, exactly as asyncio's datagram transport would hand it over: an exception
        escaping datagram_received is logged by the loop and the next datagram is processed."""
        before = len(self.sends)
        exc = None
        try:
            self.protos[assoc].datagram_received(data, source)
        except Exception as e:  # noqa: asyncio's Handle._run does the same
            exc = e
            self.escaped.append(type(e).__name__)
        self.loop.run_ready()
        return self.sends[before:], exc

    def close_control(self, assoc: int):
        """The viewer's SOCKS5 control connection ends (EOF on the TCP stream): SOCKS5Server.handle_connection's finally
        block closes that connection's ProxyClientContext."""
        before = len(self.sends)
        reader, _writer, task = self.controls[assoc]
        reader.feed_eof()
        self.loop.run_ready()
        raised = task.exception() if task.done() and not task.cancelled() else None
        return self.sends[before:], raised, task.done()

    def os_error(self, assoc: int, exc: OSError):
        """The OS reports an error on the association's socket: asyncio calls protocol.error_received(exc)."""
        before = len(self.sends)
        raised = None
        try:
            self.protos[assoc].error_received(exc)
        except Exception as e:  # noqa
            raised = e
            self.escaped.append(type(e).__name__)
        self.loop.run_ready()
        return self.sends[before:], raised

    def region(self, i: int, j: int):
        for r in self.sessions[i].regions:
            if r.circuit_addr == SIMS[j]:
                return r
        return None

    def circuit_index(self, c) -> int:
        if c is None:
            return -1
        for k, o in enumerate(self.circuit_objs):
            if o is c:
                return k
        self.circuit_objs.append(c)
        return len(self.circuit_objs) - 1

    # ---- observation ------------------------------------------------------------------------------
    def session_state(self, i: int):
        """Everything the property calls 'the session's state' (address learning excluded), as primitives."""
        s = self.sessions[i]
        p = self.protos[i]
        regs = []
        for r in s.regions:
            c = r.circuit
            if c is None:
                regs.append((r.circuit_addr, None))
                continue
            regs.append((
                r.circuit_addr, self.circuit_index(c), bool(c.is_alive), c.near_host, c.host,
                tuple(c.in_injections.injections), tuple(c.in_injections.dropped), c.in_injections._packet_id_base,
                c.in_injections._injection_base,
                tuple(c.out_injections.injections), tuple(c.out_injections.dropped), c.out_injections._packet_id_base,
                c.out_injections._injection_base,
                tuple(sorted((d.name, n) for d, n in c.unacked_reliable)), tuple(c.seen_reliable), c.packet_id_base,
                r._name, r.handle,
            ))
        main = s.main_region
        which = None
        if p.session is not None:
            which = next((k for k, x in enumerate(self.sessions) if x is p.session), "foreign")
        sock = getattr(p.transport, "transport", None)
        return (bool(s.pending), which, tuple(regs), main.circuit_addr if main is not None else None,
                str(s.active_group), len(self.sm.sessions), bool(getattr(sock, "closed", False)), bool(p.resend_task.done()))

    def learned(self, i: int):
        return tuple(sorted(((repr(k), v) for k, v in self.protos[i].far_to_near_map.items())))

    def close(self):
        for p in self.protos:
            try:
                p.resend_task.cancel()
            except Exception:
                pass
        for _r, _w, t in self.controls:
            try:
                t.cancel()
            except Exception:
                pass
        try:
            for _, t in list(AddonManager.SCHEDULER.tasks):
                t.cancel()
        except Exception:
            pass
        try:
            self.loop.run_ready()
        except Exception:
            pass
        # Cancelling the resend tasks leaves CancelledError tracebacks on them whose frames (this close(), fresh(), the
        # explorer's _expand with its parent/child worlds) chain every world ever built to the next one.  Cut the world
        # loose from everything heavy so that chain holds a few empty shells at most; model/violations/flags stay.
        for p in self.protos:
            sock = getattr(getattr(p, "transport", None), "transport", None)
            if sock is not None:
                sock.world = sock.proto = None
            p.resend_task = None
            p.transport = None
            p.session = None
            p.session_manager = None
        for _r, _w, t in self.controls:
            try:
                t.cancel()
            except Exception:
                pass
        self.controls = []
        self.server = None
        self.protos = []
        self.sessions = []
        self.sm = None
        self.loop = None
        self.ctx = None
        self.sends = []
        self.circuit_objs = []
        self.addons = []


_LAST: Optional[World] = None
_N_FRESH = 0
_GC_EVERY = 64


def _memory_hygiene():
    """Worlds are cyclic garbage (protocol <-> transport <-> world, exception <-> frame) of ~10^4 objects each.  CPython
    postpones full collections until the young garbage exceeds 25% of all long-lived objects, and the imported library
    alone is ~2*10^5 objects -- pool workers were observed at 3 GB each.  Freeze what exists at the first world of a process
    (it is immortal anyway) and run a full collection every _GC_EVERY worlds."""
    global _N_FRESH
    if _N_FRESH == 0:
        gc.collect()
        gc.freeze()
    _N_FRESH += 1
    if _N_FRESH % _GC_EVERY == 0:
        gc.collect()


def reset_addon_manager():
    """AddonManager keeps everything at class level; bring it back to import-time values."""
    AddonManager.BASE_ADDON_SPECS.clear()
    AddonManager.FILE_MTIMES.clear()
    AddonManager.HOTRELOAD_IMPORTERS.clear()
    AddonManager.FRESH_ADDON_MODULES.clear()
    AddonManager.SESSION_MANAGER = None
    AddonManager.UI = None
    AddonManager.LAST_RELOAD = None
    AddonManager.SCHEDULER = TaskScheduler()
    AddonManager._SUBPROCESS = False
    AddonManager._REPL_TASK = None
    AddonManager._HOT_RELOADING_STACK.clear()
    AddonManager._SWALLOW_ADDON_EXCEPTIONS = True


def _counter_uuid4():
    n = [0]

    def uuid4():
        n[0] += 1
        return _uuid.UUID(int=0xC0DE0000_0000_4000_8000_000000000000 + n[0])
    return uuid4


def fresh(n_sessions: int = 2, addons: Optional[List[Any]] = None, neighbour: bool = True,
          neighbour_handle: Any = "mixed", via_socks: bool = False) -> World:
    """New world: SessionManager, n sessions (main region SIMS[0] from login data, neighbour SIMS[1] via
    register_region), one association/protocol per session, addons registered via AddonManager.init([], sm, addons).
    ``neighbour_handle``: True = every neighbour is registered with its region handle, False = without one (handle is
    Optional: the proxy learns it later from AgentMovementComplete), "mixed" = session 0 with, session 1 without.
    ``via_socks``: the associations are not constructed by hand but by the real control path: one
    ``SLSOCKS5Server.handle_connection`` task per viewer on in-memory streams (greeting, UDP ASSOCIATE); only
    ``loop.create_datagram_endpoint`` is replaced (protocol factory is called, CapSock is the transport)."""
    global _LAST
    if _LAST is not None:
        _LAST.close()
        _LAST = None
    _memory_hygiene()
    _uuid.uuid4 = _counter_uuid4()
    reset_addon_manager()
    w = World()
    w.loop = vloop.VLoop()
    w.ctx = vloop.install(w.loop, clock_modules=[_circuit_mod])
    w.sm = SessionManager(ProxySettings())
    w.addons = list(addons or [])
    # Addons first (as the real proxy does at start-up), sessions afterwards.
    AddonManager.init([], w.sm, w.addons)
    for i in range(n_sessions):
        s = w.sm.create_session({
            "session_id": session_uuid(i, 0), "secure_session_id": session_uuid(i, 1), "agent_id": session_uuid(i, 2),
            "circuit_code": CIRCUIT_CODE + i, "sim_ip": SIMS[0][0], "sim_port": SIMS[0][1],
            "region_x": 1000 + i, "region_y": 1000, "seed_capability": f"https://sim0.test.localhost:12043/cap/{i}/seed",
        })
        if neighbour:
            with_handle = (i == 0) if neighbour_handle == "mixed" else bool(neighbour_handle)
            s.register_region(circuit_addr=SIMS[1], seed_url=f"https://sim1.test.localhost:12043/cap/{i}/seed",
                              handle=(((1001 + i) << 32) | 1000) if with_handle else None)
        w.sessions.append(s)
        if via_socks:
            continue
        p = InterceptingLLUDPProxyProtocol(TCP_PEERS[i], w.sm)
        sock = CapSock(w, i)
        p.connection_made(sock)
        sock.proto = p
        w.protos.append(p)
    if via_socks:
        _associate_via_socks(w, n_sessions)
    w.loop.run_ready()
    _LAST = w
    return w


def _associate_via_socks(w: World, n: int):
    import asyncio
    import socket
    from hippolyzer.lib.proxy.lludp_proxy import SLSOCKS5Server

    async def create_datagram_endpoint(protocol_factory, local_addr=None, **kwargs):
        p = protocol_factory()
        sock = CapSock(w, len(w.protos))
        p.connection_made(sock)
        sock.proto = p
        w.protos.append(p)
        return sock, p
    w.loop.create_datagram_endpoint = create_datagram_endpoint
    w.server = SLSOCKS5Server(w.sm)
    for i in range(n):
        reader = asyncio.StreamReader(loop=w.loop)
        writer = ControlWriter(TCP_PEERS[i])
        task = w.loop.create_task(w.server.handle_connection(reader, writer))
        reader.feed_data(b"\x05\x01\x00")                                                       # greeting: no auth
        reader.feed_data(b"\x05\x03\x00\x01" + socket.inet_aton("0.0.0.0") + b"\x00\x00")       # UDP ASSOCIATE
        w.loop.run_ready()
        if len(w.protos) != i + 1 or task.done() or len(writer.written) != 2 or writer.written[1][:2] != b"\x05\x00":
            raise RuntimeError(f"SOCKS control path did not produce association {i}: protos={len(w.protos)} "
                               f"task_done={task.done()} replies={writer.written!r}")
        w.controls.append((reader, writer, task))


def restore_uuid4():
    _uuid.uuid4 = _ORIG_UUID4


def shutdown():
    """Leave the process as we found it: close the last world, uninstall the virtual loop, restore uuid4."""
    global _LAST
    if _LAST is not None:
        _LAST.close()
        _LAST = None
    vloop.uninstall()
    restore_uuid4()


# ---- message builders (library serializer; the content oracle decodes independently of the object that was sent) ----
_SER = UDPMessageSerializer()
_EAGER = Settings()
_EAGER.ENABLE_DEFERRED_PACKET_PARSING = False
_DESER = UDPMessageDeserializer(settings=_EAGER)


def use_circuit_code(i: int, packet_id: int, session_id: Optional[UUID] = None, flags: int = 0x40) -> bytes:
    msg = Message("UseCircuitCode",
                  Block("CircuitCode", Code=CIRCUIT_CODE + i, SessionID=session_id or session_uuid(i, 0),
                        ID=session_uuid(i, 2)),
                  packet_id=packet_id, flags=flags)
    return bytes(_SER.serialize(msg))


def serialize(msg: Message) -> bytes:
    return bytes(_SER.serialize(msg))


def decode(data: bytes):
    """Eager decode to plain data: (name, flags, packet_id, acks, extra, body-dict). Raises on undecodable input."""
    m = _DESER.deserialize(data)
    d = m.to_dict()
    return (m.name, int(m.send_flags), m.packet_id, tuple(m.acks), bytes(m.extra), repr(d["body"]))


def header_fields(data: bytes):
    """Reference read of the fixed LLUDP header: flags, packet id, trailing acks (independent of the library)."""
    flags, pid, off = struct.unpack(">BIB", data[:6])
    acks: Tuple[int, ...] = ()
    if flags & 0x10:
        n = data[-1]
        raw = data[len(data) - 1 - 4 * n:len(data) - 1]
        acks = tuple(reversed([struct.unpack(">I", raw[k:k + 4])[0] for k in range(0, len(raw), 4)]))
    return flags, pid, off, acks


def collect_loop_noise(w: World) -> List[Any]:
    gc.collect(0)
    return w.loop.collect_exceptions()

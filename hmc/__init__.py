"""hmc -- bounded exhaustive exploration machinery for the Hippolyzer properties (see DESIGN.md §2)."""

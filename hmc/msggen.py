"""Template-driven bounded-exhaustive LLUDP message generator (DESIGN.md §2.2).

A *case* is plain data::

    {"name", "flags", "packet_id", "acks": tuple, "extra": bytes, "blocks": [(block_name, [ {var: alphabet_index}, ...])],
     "tag": str}

Values are referenced by alphabet index so that cases are small, picklable and JSON-able; ``lib_message`` builds the
hippolyzer Message, ``ref_message`` builds the dict for hmc.refwire.  Structure comes from refwire's *independent* parse
of message_template.msg; the library's template objects are consulted only to pick the value domain of byte fields
(text / binary / unknown, by the same name heuristic the decoder uses).
"""
from __future__ import annotations

import struct
from typing import Any, Dict, Iterator, List, Tuple

from hippolyzer.lib.base.datatypes import UUID, Quaternion, Vector3, Vector4
from hippolyzer.lib.base.message.message import Block, Message
from hippolyzer.lib.base.message.template_dict import DEFAULT_TEMPLATE_DICT

from . import refwire

F32_MAX = struct.unpack("<f", b"\xff\xff\x7f\x7f")[0]
F32_SUB = struct.unpack("<f", b"\x01\x00\x00\x00")[0]
F64_MAX = 1.7976931348623157e308
F64_SUB = 5e-324


def _uuid_pattern(seed: int) -> bytes:
    return bytes(((i * 17 + seed * 29 + 3) % 256) for i in range(16))


def _pat(n: int, seed: int = 0) -> bytes:
    return bytes(((i * 7 + seed + 1) % 255) + 1 for i in range(n))  # never contains NUL


def alphabets(seed: int = 0) -> Dict[str, List[Tuple[Any, Any]]]:
    """type key -> list of (library value, reference value). Simplest first. Seed only changes filler constants."""
    mid = (seed * 2654435761) & 0xFFFFFFFF
    a: Dict[str, List[Tuple[Any, Any]]] = {}

    def ints(vals):
        return [(v, v) for v in vals]

    a["U8"] = ints([0, 1, 0x7F, 0x80, 0xFF, (mid % 0xFD) + 1])
    a["S8"] = ints([0, 1, -1, -128, 127, (mid % 250) - 125])
    a["U16"] = ints([0, 1, 0xFF, 0x100, 0x7FFF, 0x8000, 0xFFFF, (mid % 0xFFFD) + 1])
    a["S16"] = ints([0, 1, -1, -32768, 32767, 0x100, -0x100])
    a["U32"] = ints([0, 1, 0xFF, 0x100, 0x7FFFFFFF, 0x80000000, 0xFFFFFFFF, 0x01020304, (mid % 0xFFFFFFFD) + 1])
    a["S32"] = ints([0, 1, -1, -2 ** 31, 2 ** 31 - 1, 0x01020304, -0x01020304])
    a["U64"] = ints([0, 1, 0xFFFFFFFF, 0x100000000, 2 ** 63 - 1, 2 ** 63, 2 ** 64 - 1, 0x0102030405060708])
    a["S64"] = ints([0, 1, -1, -2 ** 63, 2 ** 63 - 1])
    a["BOOL"] = [(False, 0), (True, 1), (0, 0), (1, 1)]
    a["IPPORT"] = ints([0, 1, 0x1234, 0xFFFF, 13000 + seed % 100])
    a["IPADDR"] = [(s, s) for s in ("0.0.0.0", "255.255.255.255", "127.0.0.1", "10.1.2.%d" % (seed % 250 + 1))]
    f32 = [0.0, -0.0, 1.0, -1.5, F32_MAX, -F32_MAX, F32_SUB, 0.15625, float("inf"), float("-inf")]
    a["F32"] = [(v, v) for v in f32]
    f64 = [0.0, -0.0, 1.0, -1.5, F64_MAX, F64_SUB, 0.1, float("inf")]
    a["F64"] = [(v, v) for v in f64]
    v3 = [(0.0, 0.0, 0.0), (1.0, 2.0, 3.0), (-0.0, -1.5, F32_MAX), (F32_SUB, 256.0, -128.25), (0.5, 0.25, 0.125)]
    a["LLVector3"] = [(Vector3(*v), v) for v in v3]
    v3d = [(0.0, 0.0, 0.0), (1.0, 2.0, 3.0), (-0.0, 0.1, F64_MAX), (256000.125, 255999.875, -4096.0)]
    a["LLVector3d"] = [(Vector3(*v), v) for v in v3d]
    v4 = [(0.0, 0.0, 0.0, 0.0), (1.0, 2.0, 3.0, 4.0), (-0.0, -1.5, F32_MAX, F32_SUB)]
    a["LLVector4"] = [(Vector4(*v), v) for v in v4]
    q = [(0.0, 0.0, 0.0), (1.0, 0.0, 0.0), (0.5, 0.5, 0.5), (-0.5, 0.25, -0.0), (0.0, 0.0, 0.70703125)]
    a["LLQuaternion"] = [(Quaternion(*v), v) for v in q]
    ub = [b"\x00" * 16, b"\xff" * 16, _uuid_pattern(seed), bytes(range(16))]
    a["LLUUID"] = [(UUID(bytes=b), b) for b in ub]
    # byte fields: (library value, wire bytes)
    # incl. a leading / lone byte-order mark, a non-BMP and a decomposed character, surrounding blanks and CR LF: each is legal UTF-8 that a
    # "helpful" decoder (utf-8-sig, normalisation, strip, universal newlines) would not give back
    text = ["", "a", "héllo ✓ wörld", "a\x00b", "line1\nline2\n\"q\" 'q' \\ end", "x" * 254,
            "\ufeffbom", "\ufeff", "e\u0301 \U0001f600", " pad \t", "cr\r\nlf\r"]
    a["TEXT1"] = [(s, s.encode("utf8") + b"\x00") for s in text] + [
        (b"", b""), (b"\xff\xfe", b"\xff\xfe"), (b"abc", b"abc"), (_pat(255, seed), _pat(255, seed))]
    a["TEXT2"] = [(s, s.encode("utf8") + b"\x00") for s in text + ["y" * 255, "z" * 1199]] + [
        (b"", b""), (b"\xff\xfe\x00", b"\xff\xfe\x00"), (_pat(256, seed), _pat(256, seed))]
    binary = [b"", b"\x00", b"\x00\x00", b"\x01\x00\xff", b"bin\x00\x00", b"\xff" * 3]
    a["BIN1"] = [(b, b) for b in binary + [_pat(255, seed), b"\x00" * 255]]
    a["BIN2"] = [(b, b) for b in binary + [_pat(255, seed), _pat(256, seed), _pat(1200, seed), b"\x00" * 300]]
    unk = [(b"", b""), (b"\x00", b"\x00"), ("abc", b"abc\x00"), (b"abc", b"abc"), (b"\xff\xfe", b"\xff\xfe"), (b"a\x00\x00", b"a\x00\x00")]
    a["UNK1"] = unk + [(_pat(255, seed), _pat(255, seed))]
    a["UNK2"] = unk + [(_pat(256, seed), _pat(256, seed)), (_pat(1200, seed), _pat(1200, seed))]
    return a


def fixed_alphabet(size: int, seed: int) -> List[Tuple[Any, Any]]:
    return [(b, b) for b in (b"\x00" * size, b"\xff" * size, _pat(size, seed), b"\x00" * (size - 1) + b"\x01")]


_LIB = DEFAULT_TEMPLATE_DICT


def var_key(msg_name: str, block_name: str, rvar: refwire.RVar) -> str:
    """Which alphabet a variable draws from."""
    if rvar.type == "Variable":
        lv = _LIB[msg_name].get_block(block_name).get_variable(rvar.name)
        if lv.probably_binary:
            kind = "BIN"
        elif lv.probably_text:
            kind = "TEXT"
        else:
            kind = "UNK"
        return f"{kind}{rvar.size}"
    if rvar.type == "Fixed":
        return f"FIXED{rvar.size}"
    return rvar.type


class Gen:
    def __init__(self, seed: int = 0, finite_only: bool = False, maximal: bool = False):
        self.seed = seed
        self.alpha = alphabets(seed)
        if maximal:  # maximal-length Variable 2 fields (65535 bytes on the wire)
            self.alpha["TEXT2"] = self.alpha["TEXT2"] + [("m" * 65534, b"m" * 65534 + b"\x00")]
            self.alpha["BIN2"] = self.alpha["BIN2"] + [(_pat(65535, seed), _pat(65535, seed))]
            self.alpha["UNK2"] = self.alpha["UNK2"] + [(_pat(65535, seed), _pat(65535, seed))]
        if finite_only:
            for k in ("F32", "F64"):
                self.alpha[k] = [p for p in self.alpha[k] if p[0] not in (float("inf"), float("-inf"))]
        self.templates = refwire.templates()

    def alphabet(self, key: str):
        if key.startswith("FIXED"):
            return fixed_alphabet(int(key[5:]), self.seed)
        return self.alpha[key]

    def n_rows(self, tmpl: refwire.RTemplate) -> int:
        n = 1
        for b in tmpl.blocks:
            for v in b.vars:
                n = max(n, len(self.alphabet(var_key(tmpl.name, b.name, v))))
        return n

    def row(self, tmpl: refwire.RTemplate, block: refwire.RBlock, k: int) -> Dict[str, int]:
        """Row k: every variable takes element (k + offset) of its alphabet."""
        out = {}
        for j, v in enumerate(block.vars):
            n = len(self.alphabet(var_key(tmpl.name, block.name, v)))
            out[v.name] = (k + (self.seed * (j + 1)) % n) % n
        return out

    def blocks(self, tmpl: refwire.RTemplate, k: int, counts: Dict[str, int], nblocks: int = None):
        out = []
        for b in tmpl.blocks[:nblocks if nblocks is not None else len(tmpl.blocks)]:
            if b.kind == "Single":
                n = 1
            elif b.kind == "Multiple":
                n = b.number
            else:
                n = counts.get(b.name, 1)
            reps = [self.row(tmpl, b, k + i) for i in range(min(n, 3))]
            if n > 3:  # long repeats cycle through three distinct rows
                reps = [reps[i % 3] for i in range(n)]
            out.append((b.name, reps))
        return out

    # ---- case families ---------------------------------------------------------------------------
    def value_rows(self, name: str, header_cycle=None) -> Iterator[dict]:
        """Every alphabet element of every variable occurs: rows 0..L-1, default block counts (1 / template number)."""
        tmpl = self.templates[name]
        hv = header_cycle or HEADER_EACH_CHOICE
        for k in range(self.n_rows(tmpl)):
            h = hv[k % len(hv)]
            yield {"name": name, **h, "blocks": self.blocks(tmpl, k, {}), "tag": f"row{k}"}
            # the same row with the zero-coding flag flipped: every value (long zero runs included) goes through both encodings
            yield {"name": name, **dict(h, flags=h["flags"] ^ 0x80), "blocks": self.blocks(tmpl, k, {}), "tag": f"row{k}z"}

    def count_variants(self, name: str) -> Iterator[dict]:
        tmpl = self.templates[name]
        vb = [b.name for b in tmpl.blocks if b.kind == "Variable"]
        h = HEADER_EACH_CHOICE[0]
        if vb:
            for c in (0, 2, 255):
                yield {"name": name, **h, "blocks": self.blocks(tmpl, 0, {b: c for b in vb}), "tag": f"count{c}"}
            if len(vb) >= 2:
                for i, b0 in enumerate(vb):  # one block at a different count from the others
                    for c0, c1 in ((0, 2), (2, 0), (1, 255), (255, 0)):
                        cs = {b: c1 for b in vb}
                        cs[b0] = c0
                        yield {"name": name, **h, "blocks": self.blocks(tmpl, 1, cs), "tag": f"count{b0}={c0},rest={c1}"}
        # trailing blocks omitted (keep at least one block)
        for nb in range(1, len(tmpl.blocks)):
            yield {"name": name, **h, "blocks": self.blocks(tmpl, 0, {}, nblocks=nb), "tag": f"prefix{nb}"}

    def count_sweep(self, name: str) -> Iterator[dict]:
        """Every repeat count 0..255 of each Variable block of one template (others at 1), unencoded."""
        tmpl = self.templates[name]
        h = _hdr(0, 1, (), b"")
        for b in tmpl.blocks:
            if b.kind != "Variable":
                continue
            for c in range(256):
                yield {"name": name, **h, "blocks": self.blocks(tmpl, 2, {b.name: c}), "tag": f"sweep:{b.name}={c}"}

    def header_variants(self, name: str) -> Iterator[dict]:
        tmpl = self.templates[name]
        for h in HEADER_FULL:
            yield {"name": name, **h, "blocks": self.blocks(tmpl, 1, {}), "tag": "hdr"}

    def all_cases(self, quick: bool) -> Iterator[dict]:
        for name in self.templates:
            yield from self.value_rows(name)
            yield from self.count_variants(name)
        for name in HEADER_BASIS:
            for c in self.header_variants(name):
                if quick and (len(c["acks"]) > 3 or len(c["extra"]) > 16):
                    continue
                yield c

    # ---- builders --------------------------------------------------------------------------------
    def lib_value(self, name, bname, rvar, idx):
        return self.alphabet(var_key(name, bname, rvar))[idx][0]

    def ref_value(self, name, bname, rvar, idx):
        return self.alphabet(var_key(name, bname, rvar))[idx][1]

    def lib_message(self, case: dict, skip_vars=(), fill_missing=False, fill_blocks=None) -> Message:
        """fill_blocks: set of (block name, index) marked fill_missing individually (the other blocks are not marked)."""
        tmpl = self.templates[case["name"]]
        msg = Message(case["name"], packet_id=case["packet_id"], flags=case["flags"], acks=tuple(case["acks"]))
        if case["extra"]:
            msg.extra = case["extra"]
        bmap = {b.name: b for b in tmpl.blocks}
        for bname, rows in case["blocks"]:
            msg.create_block_list(bname)
            rb = bmap[bname]
            for i, row in enumerate(rows):
                kw = {v.name: self.lib_value(case["name"], bname, v, row[v.name]) for v in rb.vars
                      if (bname, i, v.name) not in skip_vars and (bname, None, v.name) not in skip_vars}
                fm = fill_missing if fill_blocks is None else ((bname, i) in fill_blocks)
                msg.add_block(Block(bname, fill_missing=fm, **kw))
        return msg

    def ref_message(self, case: dict, skip_vars=()) -> dict:
        tmpl = self.templates[case["name"]]
        bmap = {b.name: b for b in tmpl.blocks}
        blocks = []
        for bname, rows in case["blocks"]:
            rb = bmap[bname]
            blocks.append((bname, [
                {v.name: self.ref_value(case["name"], bname, v, row[v.name]) for v in rb.vars
                 if (bname, i, v.name) not in skip_vars and (bname, None, v.name) not in skip_vars}
                for i, row in enumerate(rows)]))
        return {"name": case["name"], "flags": case["flags"], "packet_id": case["packet_id"], "acks": list(case["acks"]),
                "extra": case["extra"], "blocks": blocks}

    def expected_values(self, case: dict) -> List[Tuple[str, List[Dict[str, Any]]]]:
        tmpl = self.templates[case["name"]]
        bmap = {b.name: b for b in tmpl.blocks}
        return [(bname, [{v.name: self.lib_value(case["name"], bname, v, row[v.name]) for v in bmap[bname].vars} for row in rows])
                for bname, rows in case["blocks"]]


def _hdr(flags, pid, acks, extra):
    return {"flags": flags, "packet_id": pid, "acks": tuple(acks), "extra": extra}


ACKS = [(), (1,), (0xFFFFFFFF, 0, 7), tuple(range(1000, 1255))]
# the 14-byte member is six+ isolated zero bytes: each grows to 00 01 when zero-coded, which stresses the header peek window
EXTRAS = [b"", b"\x00", b"\x01\x00\xff", b"\x00\x07" * 7, bytes((i % 3) for i in range(255))]
PIDS = [0, 1, 0xFFFFFFFF]

# each-choice list: every flag subset, every id, every ack list, every extra occurs at least once.
HEADER_EACH_CHOICE = []
for _i, _f in enumerate(range(16)):
    _flags = (_f & 1) * 0x80 | ((_f >> 1) & 1) * 0x40 | ((_f >> 2) & 1) * 0x20 | ((_f >> 3) & 1) * 0x10
    _acks = ACKS[_i % 4] if _flags & 0x10 else ()
    HEADER_EACH_CHOICE.append(_hdr(_flags, PIDS[_i % 3], _acks, EXTRAS[(_i // 2) % 5]))
HEADER_EACH_CHOICE.sort(key=lambda h: (len(h["acks"]) + len(h["extra"]), h["flags"]))

HEADER_FULL = []
for _f in range(16):
    _flags = (_f & 1) * 0x80 | ((_f >> 1) & 1) * 0x40 | ((_f >> 2) & 1) * 0x20 | ((_f >> 3) & 1) * 0x10
    for _p in PIDS:
        for _a in (ACKS if _flags & 0x10 else [()]):
            for _e in EXTRAS:
                HEADER_FULL.append(_hdr(_flags, _p, _a, _e))

# one template per (frequency x encoding x block type) class, plus the codec's special cases
HEADER_BASIS = [
    "PacketAck", "CloseCircuit", "StartPingCheck", "TestMessage", "ChatFromViewer", "ObjectUpdate", "AgentUpdate",
    "ImprovedTerseObjectUpdate", "ViewerEffect", "CoarseLocationUpdate", "UseCircuitCode", "SendXferPacket",
    "ImprovedInstantMessage", "LayerData",
]


def case_summary(case: dict) -> dict:
    return {"name": case["name"], "tag": case.get("tag"), "flags": case["flags"], "packet_id": case["packet_id"],
            "n_acks": len(case["acks"]), "extra_len": len(case["extra"]),
            "blocks": [(b, len(rows)) for b, rows in case["blocks"]]}


def rejected_ops(gen: "Gen", name: str):
    """[(label, fn(ser, de_eager, de_lazy) -> raised?)]: calls the codec is expected to reject, each leaving work half done."""
    tmpl = gen.templates[name]
    base = {"name": name, "flags": 0, "packet_id": 9, "acks": (), "extra": b"", "blocks": gen.blocks(tmpl, 2, {}), "tag": "rej"}
    ops = []

    def enc(label, build):
        def fn(ser, de_eager, de_lazy):
            try:
                ser.serialize(build())
            except Exception:
                return True
            return False
        ops.append((label, fn))

    def dec(label, data):
        def fn(ser, de_eager, de_lazy):
            raised = False
            for de in (de_eager, de_lazy):
                try:
                    de.deserialize(data).blocks
                except Exception:
                    raised = True
            return raised
        ops.append((label, fn))

    last_b = next((b for b in reversed(tmpl.blocks) if b.vars), None)
    if last_b is not None:
        enc("enc:unset-late", lambda: gen.lib_message(base, skip_vars={(last_b.name, None, last_b.vars[-1].name)}))
        intv = next(((b, v) for b in reversed(tmpl.blocks) for v in reversed(b.vars) if v.type in ("U8", "U16", "U32", "S8", "S16", "S32")), None)
        if intv is not None:
            def _oor():
                m = gen.lib_message(base)
                m.blocks[intv[0].name][-1].vars[intv[1].name] = 1 << 40
                return m
            enc("enc:out-of-range", _oor)

    def _unknown():
        m = gen.lib_message(base)
        m.add_block(Block("NoSuchBlock", X=1))
        return m
    enc("enc:unknown-block", _unknown)
    mult = next((b for b in tmpl.blocks if b.kind == "Multiple" and b.number >= 2), None)
    if mult is not None:
        def _short():
            m = gen.lib_message(base)
            m.blocks[mult.name].pop()
            return m
        enc("enc:multiple-short", _short)
    good = refwire.encode(gen.ref_message(base))
    if len(good) > 7:
        dec("dec:truncated", good[:-1] if tmpl.blocks else good[:6])
    dec("dec:unknown-number", good[:6] + b"\xff\xff\xff\xf0" + b"\x00" * 8)
    dec("dec:zerocode-dangling", bytes([good[0] | 0x80]) + good[1:6] + b"\x00")
    return ops

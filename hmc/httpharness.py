"""Shared seam for the HTTP-side checks (C15, C17): the real ``MITMProxyEventManager`` fed through deterministic queues.

What is real: ``SessionManager`` / ``Session`` / ``ProxiedRegion`` (caps, ``EventQueueManager``), ``AddonManager`` with addon
*objects*, ``MITMProxyEventManager.pump_proxy_event``, ``HippoHTTPFlow`` and - on the other side of the queue pair - the
real ``SLMITMAddon.request / responseheaders / response`` hooks that intercept a mitmproxy ``HTTPFlow`` and put its state on
the from-proxy queue.  What is replaced: the two ``multiprocessing.Queue`` objects (``MemQueue``: same ``put`` /
``get(False)`` / ``queue.Empty`` contract, every item goes through ``pickle`` exactly like the real queue so no object is
shared between the two "processes"), the ``multiprocessing.Event`` flags, the asyncio loop (``hmc.vloop.VLoop``), the UDP
transport (``MockTransport``) and ``uuid.uuid4`` (a counter, so proxy-only cap URLs / flow ids are reproducible).

``fresh_env()`` resets every piece of module/class-level state the seam touches (``AddonManager.*``, the uuid counter,
the current loop) so that replaying a history on a fresh world is deterministic.
"""
from __future__ import annotations

import collections
import pickle
import queue
import uuid as _uuid_mod
from typing import Any, Dict, List, Optional, Sequence, Tuple

from mitmproxy.http import HTTPFlow, Headers, Response
from mitmproxy.test import tflow, tutils

from hippolyzer.lib.base.datatypes import UUID
from hippolyzer.lib.base.test_utils import MockTransport
from hippolyzer.lib.proxy import addons as _addons_mod
from hippolyzer.lib.proxy.addons import AddonManager
from hippolyzer.lib.proxy.http_event_manager import MITMProxyEventManager
from hippolyzer.lib.proxy.http_proxy import SLMITMAddon
from hippolyzer.lib.proxy.sessions import Session, SessionManager
from hippolyzer.lib.proxy.settings import ProxySettings
from hippolyzer.lib.proxy.task_scheduler import TaskScheduler

from .core import HarnessError
from .vloop import VLoop, install


# ------------------------------------------------------------------------------------------------ queues
class MemQueue:
    """In-memory stand-in for ``multiprocessing.Queue``: FIFO, ``get`` never blocks (raises ``queue.Empty``), items are
    pickled on ``put`` and unpickled on ``get`` (what the real queue's feeder thread / reader do)."""

    def __init__(self, name: str = ""):
        self.name = name
        self._items: collections.deque = collections.deque()
        self.put_log: List[Any] = []      # every item ever put (unpickled copy), for oracles
        self.n_put = 0
        self.n_got = 0

    def put(self, obj, block: bool = True, timeout: Optional[float] = None):
        data = pickle.dumps(obj)
        self._items.append(data)
        self.put_log.append(pickle.loads(data))
        self.n_put += 1

    def put_nowait(self, obj):
        self.put(obj, False)

    def get(self, block: bool = True, timeout: Optional[float] = None):
        if not self._items:
            raise queue.Empty()
        self.n_got += 1
        return pickle.loads(self._items.popleft())

    def get_nowait(self):
        return self.get(False)

    def empty(self) -> bool:
        return not self._items

    def qsize(self) -> int:
        return len(self._items)

    def drain(self) -> List[Any]:
        out = []
        while self._items:
            out.append(self.get(False))
        return out


class FakeSignal:
    """``multiprocessing.Event`` stand-in."""

    def __init__(self):
        self._flag = False

    def set(self):
        self._flag = True

    def clear(self):
        self._flag = False

    def is_set(self) -> bool:
        return self._flag

    def wait(self, timeout=None) -> bool:
        return self._flag


class MemFlowContext:
    """Same attributes as ``http_proxy.HTTPFlowContext`` without any OS resource."""

    def __init__(self):
        self.from_proxy_queue = MemQueue("from_proxy")
        self.to_proxy_queue = MemQueue("to_proxy")
        self.shutdown_signal = FakeSignal()
        self.mitmproxy_ready = FakeSignal()


# ------------------------------------------------------------------------------------------------ global state
class _UUIDCounter:
    def __init__(self):
        self.n = 0

    def __call__(self):
        self.n += 1
        return _uuid_mod.UUID(int=(0xC0FFEE << 64) | self.n)


_REAL_UUID4 = _uuid_mod.uuid4
_COUNTER = _UUIDCounter()


def reset_library_globals():
    """Everything at module / class level that a pump can read or write."""
    am = AddonManager
    am.BASE_ADDON_SPECS.clear()
    am.FILE_MTIMES.clear()
    am.HOTRELOAD_IMPORTERS.clear()
    am.FRESH_ADDON_MODULES.clear()
    am.SESSION_MANAGER = None
    am.UI = None
    am.LAST_RELOAD = None
    am.SCHEDULER = TaskScheduler()
    am._SUBPROCESS = False
    am._REPL_TASK = None
    am._HOT_RELOADING_STACK.clear()
    am._SWALLOW_ADDON_EXCEPTIONS = True
    _COUNTER.n = 0
    _uuid_mod.uuid4 = _COUNTER


def restore_uuid4():
    _uuid_mod.uuid4 = _REAL_UUID4


# ------------------------------------------------------------------------------------------------ environment
CLIENT_ADDR = ("127.0.0.1", 1)
#: region circuit addresses; deliberately the *same* for every session (two viewers on the same simulators)
REGION_ADDRS = [("10.0.0.1", 13000), ("10.0.0.2", 13001), ("10.0.0.3", 13002)]
REGION_HANDLES = [(1000 << 40) | (1000 << 8), (1001 << 40) | (1000 << 8), (1002 << 40) | (1000 << 8)]


def session_uuid(si: int, what: int) -> UUID:
    return UUID(int=((si + 1) << 16) | what)


def seed_url(si: int, ri: int) -> str:
    return f"https://sim{ri}.test:12043/cap/seed-s{si}r{ri}"


def cap_url(si: int, ri: int, name: str) -> str:
    return f"http://sim{ri}.test:12046/cap/s{si}r{ri}-{name.lower()}"


class Env:
    """One proxy main process (session manager + event manager) plus the mitmproxy-side addon, joined by MemQueues."""

    def __init__(self, n_sessions: int = 1, n_regions: int = 1, message_logger=None, addons: Sequence[Any] = (),
                 swallow_addon_exceptions: bool = True):
        reset_library_globals()
        self.loop = VLoop()
        self.installed = install(self.loop)
        self.ctx = MemFlowContext()
        # SessionManager.__init__ builds an HTTPFlowContext (multiprocessing queues); give it the in-memory one instead.
        import hippolyzer.lib.proxy.sessions as sessions_mod
        real_ctx_cls = sessions_mod.HTTPFlowContext
        sessions_mod.HTTPFlowContext = lambda: self.ctx
        try:
            self.sm = SessionManager(ProxySettings())
        finally:
            sessions_mod.HTTPFlowContext = real_ctx_cls
        assert self.sm.flow_context is self.ctx
        self.sm.message_logger = message_logger
        self.transport = MockTransport()
        self.sessions: List[Session] = []
        for si in range(n_sessions):
            sess = self.sm.create_session({
                "session_id": session_uuid(si, 1), "secure_session_id": session_uuid(si, 2),
                "agent_id": session_uuid(si, 3), "circuit_code": 1000 + si,
                "sim_ip": REGION_ADDRS[0][0], "sim_port": REGION_ADDRS[0][1],
                "region_x": REGION_HANDLES[0] >> 32, "region_y": REGION_HANDLES[0] & 0xFFFFFFFF,
                "seed_capability": seed_url(si, 0),
            })
            self.sm.claim_session(sess.id)
            for ri in range(1, n_regions):
                sess.register_region(REGION_ADDRS[ri], seed_url=seed_url(si, ri), handle=REGION_HANDLES[ri])
            for region in sess.regions:
                sess.open_circuit(CLIENT_ADDR, region.circuit_addr, self.transport)
            sess.main_region = sess.regions[0]
            self.sessions.append(sess)
        self.addons = list(addons)
        AddonManager.init([], self.sm, self.addons, swallow_addon_exceptions=swallow_addon_exceptions)
        self.em = MITMProxyEventManager(self.sm, self.ctx)
        self.mitm = SLMITMAddon(self.ctx)
        self._flow_n = 0

    # -- flows (mitmproxy side) -----------------------------------------------------------------------
    def new_flow(self, url: str, method: str = "GET", content: bytes = b"", headers: Sequence[Tuple[str, str]] = (),
                 fid: Optional[str] = None) -> HTTPFlow:
        self._flow_n += 1
        req = tutils.treq(method=method.encode(), content=content,
                          headers=Headers([(k.encode(), v.encode()) for k, v in headers]))
        flow = tflow.tflow(req=req)
        flow.request.url = url
        flow.id = fid or f"flow-{self._flow_n}"
        return flow

    @staticmethod
    def set_response(flow: HTTPFlow, status: int, content: bytes, headers: Optional[Dict[str, str]] = None):
        flow.response = Response.make(status, content, headers or {})

    def mitm_request(self, flow: HTTPFlow):
        """mitmproxy's ``request`` hook: intercept + put ("request", state) on the from-proxy queue."""
        self.mitm.request(flow)

    def mitm_response(self, flow: HTTPFlow) -> bool:
        """mitmproxy's ``responseheaders`` + ``response`` hooks. Returns True if a "response" event was queued."""
        before = self.ctx.from_proxy_queue.n_put
        self.mitm.responseheaders(flow)
        self.mitm.response(flow)
        return self.ctx.from_proxy_queue.n_put > before

    # -- main process side ----------------------------------------------------------------------------
    def pump(self) -> Optional[BaseException]:
        """One ``pump_proxy_event`` under the virtual loop. Returns the exception it raised, if any (``run()`` logs it)."""
        if self.ctx.from_proxy_queue.empty():
            raise HarnessError("pump() with an empty from-proxy queue")
        try:
            self.loop.run_coro(self.em.pump_proxy_event())
        except (TimeoutError, HarnessError):
            raise
        except BaseException as e:  # noqa: the real run() loop catches everything
            if isinstance(e, (KeyboardInterrupt, SystemExit)):
                raise
            # drop the frames: a stored traceback would keep sessions / regions alive (run() only logs the exception)
            seen, cur = set(), e
            while cur is not None and id(cur) not in seen:
                seen.add(id(cur))
                cur.__traceback__ = None
                cur = cur.__context__ or cur.__cause__
            return e
        return None

    def take_to_proxy(self) -> List[Any]:
        """Everything the main process put on the to-proxy queue since the last call."""
        return self.ctx.to_proxy_queue.drain()

    @staticmethod
    def apply_callback(flow: HTTPFlow, item) -> None:
        """What ``IPCInterceptionAddon._pump_callbacks`` does with a ("callback", id, state) item."""
        kind, fid, state = item
        assert kind == "callback" and fid == flow.id, (kind, fid, flow.id)
        flow.set_state(state)
        flow.resume()

    def close(self):
        restore_uuid4()

"""Explicit-state, level-synchronous BFS over the *real* implementation (DESIGN.md §2.1).

A harness implements:

    fresh()            -> world        (live implementation objects + reference model)
    enabled(world)     -> [event]      (small finite menu; events are JSON-able tuples/lists)
    step(world, ev)    -> None         (one call into real code + model step; append to world.violations
                                        dicts {clause, site, detail})
    canon(world)       -> hashable     (everything that can influence a future transition / verdict)
    deviation(ev)      -> 0/1          (departure from the default environment behaviour)
    nontrivial(world, history) -> hashable|None   (optional: key for evidence.distinct_nontrivial)
    observe(world)     -> hashable     (optional: outcome signature, guards against vacuous exploration)

A state is the event history reaching it: successors are produced by building a fresh world and replaying
the history (``copyable = True`` lets the explorer deepcopy the parent world instead).
"""
from __future__ import annotations

import copy
import time
from typing import Any, Dict, List, Optional, Tuple

from .core import HarnessError, Part, Run, digest, jsonable, pmap

_H = None  # harness, inherited by forked workers


def replay(h, history) -> Any:
    w = h.fresh()
    for ev in history:
        h.step(w, ev)
    return w


def _expand(item):
    """Worker: expand one frontier state. Returns (successor tuples, Part dump)."""
    h = _H
    history, dev, dev_bound, recheck = item
    part = Part()
    parent = replay(h, history)
    evs = list(h.enabled(parent))
    succ = []
    for ev in evs:
        d = dev + int(h.deviation(ev))
        if d > dev_bound:
            part.count("pruned_by_deviation_bound")
            continue
        if getattr(h, "copyable", False):
            w = copy.deepcopy(parent)
            w.violations = []
        else:
            w = replay(h, history)
            w.violations = []
        h.step(w, ev)
        part.count("transitions")
        hist2 = history + [ev]
        for v in w.violations:
            part.violation(v["clause"], v["site"], {"history": hist2}, v.get("detail", ""))
        c = digest(h.canon(w))
        if recheck:
            w2 = replay(h, hist2)
            if digest(h.canon(w2)) != c:
                # The same history on fresh objects reached a different state.  On the unchanged tree this never happens (every
                # harness's fresh() resets the global state it knows about), so when it does, something that outlives the objects
                # -- a module/class-level cache, a mutable default argument -- carries state from one execution into the next:
                # behaviour depends on hidden history.  Reported as a finding of its own; a third replay tells a one-off
                # (harness-side) flake from a persistent leak.
                w3 = replay(h, hist2)
                d3 = digest(h.canon(w3))
                if d3 == c:
                    raise HarnessError(f"nondeterministic replay (flaky, not persistent) for history {hist2!r}")
                part.violation("execution-independence", "process-global-state", {"history": hist2},
                               "replaying the same history on fresh objects reached a different state each time: state leaks between "
                               "executions through something that outlives the objects (module/class-level cache, mutable default)")
            part.count("determinism_rechecks")
        nt = h.nontrivial(w, hist2) if hasattr(h, "nontrivial") else None
        if nt is not None:
            part.mark_nontrivial(nt)
        if hasattr(h, "observe"):
            part.outcome(h.observe(w))
        succ.append((c, hist2, d, bool(w.violations)))
    return succ, part.dump()


def bfs(run: Run, harness, depth: int, dev_bound: int, max_states: Optional[int] = None,
        recheck_every: int = 97, label: str = "") -> Dict[str, Any]:
    """Explore every history of length <= depth with <= dev_bound deviations, deduplicating on canon()."""
    global _H
    _H = harness
    w0 = harness.fresh()
    seen: Dict[bytes, int] = {digest(harness.canon(w0)): 0}
    frontier: List[Tuple[list, int]] = [([], 0)]
    states, transitions, maxd = 1, 0, 0
    t0 = time.time()
    for level in range(depth):
        if not frontier:
            break
        items = [(hist, dev, dev_bound, (i % recheck_every) == 0) for i, (hist, dev) in enumerate(frontier)]
        results = pmap(_expand, items, run.jobs)
        nxt: List[Tuple[list, int]] = []
        for succ, part in results:
            run.merge(part)
            for c, hist2, d, bad in succ:
                transitions += 1
                old = seen.get(c)
                if old is not None and old <= d:
                    continue
                if old is None:
                    states += 1
                seen[c] = d
                if bad:
                    continue  # do not extend histories past a violation: successors would inherit it
                nxt.append((hist2, d))
        maxd = level + 1
        if max_states is not None and states > max_states:
            run.cap(f"{label}state cap {max_states} hit at depth {maxd}; depths <= {maxd} fully expanded")
            frontier = []
            break
        frontier = nxt
    for hist, _ in frontier[:3]:
        run.sample({"harness": label or type(harness).__name__, "history": hist})
    run.count("states", states)
    run.count("traces_validated_against_impl", transitions)
    run.count("evaluations", transitions)
    info = {"states": states, "transitions": transitions, "depth_completed": maxd, "deviation_bound": dev_bound,
            "frontier_at_horizon": len(frontier), "wall_s": round(time.time() - t0, 2)}
    run.coverage_extra.setdefault("searches", []).append({"label": label, **info})
    return info


def replay_history(harness, history: list) -> List[Dict[str, Any]]:
    """Plain replay (no explorer): build, apply, return the violations of the last step."""
    w = harness.fresh()
    out: List[Dict[str, Any]] = []
    for ev in history:
        w.violations = []
        harness.step(w, _tuplify(ev))
        out.extend(w.violations)
    return out


def _tuplify(ev):
    if isinstance(ev, list):
        return tuple(_tuplify(e) for e in ev)
    return ev


def minimise_run_violations(run: Run, harness):
    """Shrink every history witness recorded in ``run`` (called by model-checking harnesses before finish)."""
    for v in run.violations:
        hist = v["witness"].get("history") if isinstance(v["witness"], dict) else None
        if not hist:
            continue
        try:
            small = _minimise_tuples(harness, hist, v["clause"], v["site"])
            v["witness"]["history"] = jsonable(small)
        except Exception as e:  # minimisation is best effort
            run.notes.append(f"minimise failed: {e!r}")


def _minimise_tuples(harness, history, clause, site):
    hist = [_tuplify(e) for e in history]

    def fails(h2) -> bool:
        w = harness.fresh()
        w.violations = []
        for ev in h2:
            if ev not in list(harness.enabled(w)):
                return False
            w.violations = []
            harness.step(w, ev)
        return any(v["clause"] == clause and v["site"] == site for v in w.violations)

    changed = True
    while changed:
        changed = False
        for i in range(len(hist) - 1, -1, -1):
            cand = hist[:i] + hist[i + 1:]
            if not cand:
                continue
            try:
                if fails(cand):
                    hist, changed = cand, True
                    break
            except Exception:
                continue
    return hist

"""Generic walk over the live object graph of hippolyzer modules (used to *discover* serializer instances instead of
listing them by hand -- C10).

``walk(roots, want)`` follows dict / list / tuple / set members, instance ``__dict__`` and ``__slots__``, class
attributes (incl. ``__dataclass_fields__`` -> ``Field.metadata`` / defaults), closures and defaults of functions
defined in hippolyzer, and forces ``ForwardSerializable`` thunks.  It never enters modules other than through the
given roots and never enters instances / classes defined outside ``hippolyzer.*`` (numpy, enum internals, ...).
Returns ``[(path, obj)]`` for every reachable object with ``want(obj)`` true, in deterministic (sorted-path) order.
"""
from __future__ import annotations

import dataclasses
import types
from typing import Any, Callable, Iterable, List, Tuple

from . import introspect

PKG = "hippolyzer."
_ATOMS = (int, float, str, bytes, bool, complex, bytearray)


def _ours(mod_name) -> bool:
    return bool(mod_name) and (mod_name + ".").startswith(PKG)


def walk(roots: Iterable[Tuple[str, Any]], want: Callable[[Any], bool]) -> List[Tuple[str, Any]]:
    seen = set()
    keep = []  # keeps every visited object alive so id() stays unique during the walk
    found: List[Tuple[str, Any]] = []
    stack = list(roots)[::-1]
    while stack:
        path, o = stack.pop()
        if o is None or isinstance(o, _ATOMS) or id(o) in seen:
            continue
        seen.add(id(o))
        keep.append(o)
        try:
            hit = want(o)
        except Exception:
            hit = False
        if hit:
            found.append((path, o))
        push = stack.append
        if isinstance(o, types.ModuleType):
            continue
        if isinstance(o, (dict, types.MappingProxyType)):
            for k, v in list(o.items()):
                push((f"{path}[{k!r}]", v))
                push((f"{path}.key({k!r})", k))
            continue
        if isinstance(o, (list, tuple, set, frozenset)):
            seq = sorted(o, key=repr) if isinstance(o, (set, frozenset)) else o
            for i, v in enumerate(seq):
                push((f"{path}[{i}]", v))
            continue
        if isinstance(o, dataclasses.Field):
            push((path + ".metadata", o.metadata))
            push((path + ".default", o.default))
            push((path + ".default_factory", o.default_factory))
            continue
        if isinstance(o, (staticmethod, classmethod)):
            push((path, o.__func__))
            continue
        if isinstance(o, (types.FunctionType, types.MethodType)):
            f = o.__func__ if isinstance(o, types.MethodType) else o
            if not _ours(getattr(f, "__module__", None)):
                continue
            for i, c in enumerate(getattr(f, "__closure__", None) or ()):
                try:
                    push((f"{path}<closure {i}>", c.cell_contents))
                except ValueError:
                    pass
            for i, d in enumerate(getattr(f, "__defaults__", None) or ()):
                push((f"{path}<default {i}>", d))
            continue
        if isinstance(o, type):
            if not _ours(o.__module__):
                continue
            for k, v in list(vars(o).items()):
                if k.startswith("__") and k != "__dataclass_fields__":
                    continue
                push((f"{path}.{k}", v))
            continue
        cls = type(o)
        if not _ours(cls.__module__):
            continue
        # ForwardSerializable-style thunks: force evaluation so the wrapped spec becomes reachable
        ens = getattr(cls, "_ensure_evaled", None)
        if ens is not None:
            try:
                o._ensure_evaled()
            except Exception:
                pass
        elif any(c.__name__ == "ForwardSerializable" for c in cls.__mro__):
            # the forcing method was renamed: call the stored thunk ourselves and walk what it returns
            introspect.note_fallback("ForwardSerializable._ensure_evaled")
            for i, f in enumerate(introspect.zero_arg_functions(o)):
                try:
                    push((f"{path}<thunk {i}>()", f()))
                except Exception:
                    pass
        d = None
        try:
            d = object.__getattribute__(o, "__dict__")
        except AttributeError:
            pass
        if d:
            for k, v in list(d.items()):
                push((f"{path}.{k}", v))
        for c in cls.__mro__:
            slots = c.__dict__.get("__slots__", ())
            if isinstance(slots, str):
                slots = (slots,)
            for s in slots or ():
                try:
                    push((f"{path}.{s}", object.__getattribute__(o, s)))
                except AttributeError:
                    pass
        push((f"type({path})", cls))
    found.sort(key=lambda t: t[0])
    return found


def module_roots(*modules) -> List[Tuple[str, Any]]:
    out = []
    for m in modules:
        short = m.__name__.rsplit(".", 1)[-1]
        for k, v in sorted(vars(m).items()):
            if k.startswith("__"):
                continue
            out.append((f"{short}.{k}", v))
    return out

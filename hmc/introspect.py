"""One place for every look at *private* state of library objects (so behaviour-preserving renames cannot break a check).

``resolve(obj, names, pred)`` tries the attribute names known at the time the harness was written and otherwise searches the
object's own members (``__dict__`` + ``__slots__`` of its MRO) for the unique value satisfying ``pred``.  Every time the known
name is missing the event is counted in ``FALLBACKS`` (reported by the checks as ``introspection_fallbacks``); when nothing
can be found ``default`` is returned and the caller derives the parameter behaviourally.  Nothing here raises.
"""
from __future__ import annotations

import types
from typing import Any, Callable, Dict, Iterable, List, Optional, Tuple

FALLBACKS: Dict[str, int] = {}
_MISSING = object()


def note_fallback(what: str):
    FALLBACKS[what] = FALLBACKS.get(what, 0) + 1


def members(obj) -> List[Tuple[str, Any]]:
    """(name, value) for the instance's own state: __dict__ entries and filled __slots__ along the MRO."""
    out: List[Tuple[str, Any]] = []
    seen = set()
    try:
        d = object.__getattribute__(obj, "__dict__")
    except AttributeError:
        d = None
    if d:
        for k, v in list(d.items()):
            if k not in seen:
                seen.add(k)
                out.append((k, v))
    for c in type(obj).__mro__:
        slots = c.__dict__.get("__slots__", ())
        if isinstance(slots, str):
            slots = (slots,)
        for s in slots or ():
            if s in seen:
                continue
            try:
                out.append((s, object.__getattribute__(obj, s)))
                seen.add(s)
            except AttributeError:
                pass
    return out


def resolve(obj, names: Iterable[str], pred: Optional[Callable[[Any], bool]] = None, default: Any = None, what: str = "") -> Any:
    """Known attribute name(s) first; else the unique member accepted by ``pred``; else ``default``."""
    for n in names:
        try:
            v = object.__getattribute__(obj, n)
        except AttributeError:
            try:
                v = getattr(obj, n, _MISSING)
            except Exception:
                v = _MISSING
            if v is _MISSING:
                continue
        except Exception:
            continue
        if pred is None:
            return v
        try:
            if pred(v):
                return v
        except Exception:
            pass
    label = what or f"{type(obj).__name__}.{'/'.join(names)}"
    note_fallback(label)
    if pred is not None:
        hits = []
        for k, v in members(obj):
            try:
                if pred(v):
                    hits.append(v)
            except Exception:
                pass
        if hits and all(h is hits[0] or _same(h, hits[0]) for h in hits):
            return hits[0]
    return default


def _same(a, b) -> bool:
    try:
        return type(a) is type(b) and bool(a == b)
    except Exception:
        return False


def overrides(cls: type, base: type, ignore: Iterable[str] = ()) -> List[str]:
    """Names of plain methods that ``base`` itself defines and some class between ``cls`` and ``base`` (exclusive) redefines."""
    ign = set(ignore)
    base_funcs = {k for k, v in base.__dict__.items() if isinstance(v, types.FunctionType) and k not in ign}
    out = []
    for c in cls.__mro__:
        if c is base:
            break
        for k, v in c.__dict__.items():
            if k in base_funcs and isinstance(v, types.FunctionType) and k not in out:
                out.append(k)
    return sorted(out)


def zero_arg_functions(obj) -> List[Callable[[], Any]]:
    """Plain functions stored on the instance that can be called without arguments (thunks of forward references)."""
    out = []
    for _, v in members(obj):
        if isinstance(v, types.FunctionType):
            co = v.__code__
            required = co.co_argcount - len(v.__defaults__ or ())
            if required <= 0 and co.co_kwonlyargcount == 0:
                out.append(v)
    return out


# ================================================================================================ C09 additions
# ``priv(obj, name, kind)``: one resolver for every private attribute of a library *spec* object that hmc/subfieldgen.py
# and props/c09 need.  Known name first; if it is missing the attribute is found by type/shape among ``members(obj)``
# (counted in FALLBACKS); ambiguous shapes use ``index`` (declaration order) or the behavioural probes below.
class IntrospectionError(Exception):
    """Nothing resolvable: the caller skips template-derived generation for that entry (counted, never a violation)."""


_RAISE = object()


def _se():
    import hippolyzer.lib.base.serialization as se
    return se


def is_spec(v) -> bool:
    se = _se()
    if isinstance(v, type):
        return issubclass(v, se.SerializableBase)
    return isinstance(v, se.SerializableBase)


def _is_spec_or_entry(v) -> bool:
    se = _se()
    return is_spec(v) or v is se.UNSERIALIZABLE or isinstance(v, se.BitfieldEntry)


_KINDS: Dict[str, Callable[[Any], bool]] = {
    "spec": is_spec,
    "spec-dict": lambda v: isinstance(v, dict) and len(v) > 0 and all(_is_spec_or_entry(x) for x in v.values()),
    "spec-seq": lambda v: isinstance(v, (tuple, list)) and len(v) > 0 and all(is_spec(x) for x in v),
    "prim": lambda v: isinstance(v, _se().SerializablePrimitive),
    "int": lambda v: isinstance(v, int) and not isinstance(v, bool),
    "bool": lambda v: isinstance(v, bool),
    "str": lambda v: isinstance(v, str),
    "int-pair": lambda v: isinstance(v, (tuple, list)) and len(v) == 2 and all(isinstance(x, int) and not isinstance(x, bool) for x in v),
    "bitpacker": lambda v: callable(getattr(v, "pack", None)) and callable(getattr(v, "unpack", None)),
    "callable": callable,
}


def priv(obj, name: str, kind: str, index: Optional[int] = None, only: Optional[tuple] = None, exclude: Optional[tuple] = None,
         default: Any = _RAISE) -> Any:
    pred0 = _KINDS[kind]

    def pred(v) -> bool:
        if not pred0(v):
            return False
        if only is not None and not isinstance(v, only):
            return False
        if exclude is not None and isinstance(v, exclude):
            return False
        return True

    try:
        v = object.__getattribute__(obj, name)
        # the known name is trusted when the value has the right container type (an empty dict/sequence is legitimate)
        loose = (kind == "spec-dict" and isinstance(v, dict) and not v) or (kind == "spec-seq" and isinstance(v, (tuple, list)) and not v)
        if v is None or loose or pred(v):
            return v
    except AttributeError:
        pass
    except Exception:
        pass
    note_fallback(f"{type(obj).__name__}.{name}")
    hits = []
    for _, v in members(obj):
        try:
            if pred(v) and not any(v is h for h in hits):
                hits.append(v)
        except Exception:
            pass
    if not hits and kind in ("spec-dict", "spec-seq"):
        want = dict if kind == "spec-dict" else (tuple, list)
        empties = [v for _, v in members(obj) if isinstance(v, want) and not v]
        if len(empties) == 1:
            return empties[0]
    if len(hits) == 1:
        return hits[0]
    if hits and index is not None and -len(hits) <= index < len(hits):
        return hits[index]
    if default is not _RAISE:
        return default
    raise IntrospectionError(f"cannot resolve {type(obj).__name__}.{name} ({kind}): {len(hits)} candidates")


def template_members(template) -> List[Tuple[str, Any]]:
    """(member name, member spec) of a Template in wire order, whatever the private container looks like: a name->spec dict, or a
    sequence of (name, spec) pairs / records holding one str and one spec. Order is cross-checked against the public keys()."""
    try:
        d = object.__getattribute__(template, "_template_spec")
        if isinstance(d, dict):
            return list(d.items())
    except Exception:
        pass
    note_fallback(f"{type(template).__name__}._template_spec")
    out: Optional[List[Tuple[str, Any]]] = None
    for _, v in members(template):
        cand: Optional[List[Tuple[str, Any]]] = None
        if isinstance(v, dict) and v and all(isinstance(k, str) and _is_spec_or_entry(x) for k, x in v.items()):
            cand = list(v.items())
        elif isinstance(v, (tuple, list)) and v:
            cand = []
            for rec in v:
                parts = list(rec) if isinstance(rec, (tuple, list)) else [x for _, x in members(rec)]
                names = [x for x in parts if isinstance(x, str)]
                specs = [x for x in parts if _is_spec_or_entry(x)]
                if len(names) != 1 or len(specs) != 1:
                    cand = None
                    break
                cand.append((names[0], specs[0]))
        if cand:
            if out is not None and [n for n, _ in out] != [n for n, _ in cand]:
                raise IntrospectionError(f"ambiguous member containers on {type(template).__name__}")
            out = cand
    if out is None:
        raise IntrospectionError(f"cannot resolve the members of {type(template).__name__}")
    try:
        keys = list(template.keys())
        if keys != [n for n, _ in out]:
            raise IntrospectionError(f"members {[n for n, _ in out]} disagree with keys() {keys}")
    except IntrospectionError:
        raise
    except Exception:
        pass
    return out


def adapter_child(adapter):
    """The child spec of an ``se.Adapter`` (may be None): known name, else the single slot declared on se.Adapter itself."""
    se = _se()
    try:
        return object.__getattribute__(adapter, "_child_spec")
    except AttributeError:
        pass
    note_fallback(f"{type(adapter).__name__}._child_spec")
    slots = se.Adapter.__dict__.get("__slots__", ())
    if isinstance(slots, str):
        slots = (slots,)
    for s in slots:
        try:
            return object.__getattribute__(adapter, s)
        except AttributeError:
            continue
    # no slot on the base class any more: the first member that is a spec or None declared before anything else
    for _, v in members(adapter):
        if v is None or is_spec(v):
            return v
    raise IntrospectionError(f"cannot resolve child spec of {type(adapter).__name__}")


def prim_wire(spec) -> str:
    """Wire type name of a SerializablePrimitive from public behaviour only (calc_size / is_signed / default_value)."""
    size = spec.calc_size()
    if isinstance(spec.default_value(), float):
        return {4: "F32", 8: "F64"}[size]
    return ("S" if spec.is_signed else "U") + str(size * 8)


def _write(spec, val, endianness="<") -> Optional[bytes]:
    se = _se()
    w = se.BufferWriter(endianness)
    try:
        w.write(spec, val)
    except Exception:
        return None
    return bytes(w.buffer)


def collection_info(spec) -> Tuple[str, Any, Any, Optional[int]]:
    """(framing in {'prefixed','fixed','greedy'}, entry spec, count primitive or None, fixed count or None).
    Known names first; otherwise by shape + behaviour: an empty list serialises to the zero count for a prefixed
    collection, to nothing for a greedy one and is refused by a fixed-count one."""
    try:
        entry = object.__getattribute__(spec, "_entry_ser")
        len_spec = object.__getattribute__(spec, "_len_spec")
        length = object.__getattribute__(spec, "_length")
        return ("prefixed" if len_spec else "fixed" if length else "greedy"), entry, len_spec or None, length or None
    except AttributeError:
        pass
    note_fallback("Collection.layout")
    specs = [v for _, v in members(spec) if is_spec(v)]
    ints = [v for _, v in members(spec) if isinstance(v, int) and not isinstance(v, bool) and v]
    empty = _write(spec, [])
    if not specs:
        raise IntrospectionError("Collection without a spec member")
    if len(specs) == 1:
        if empty is None and ints:
            return "fixed", specs[0], None, ints[0]
        return "greedy", specs[0], None, None
    if len(specs) == 2 and empty:
        prims = [s for s in specs if isinstance(s, _se().SerializablePrimitive) and s.calc_size() == len(empty)]
        # the count prefix is a primitive as wide as the encoding of the empty list; entries were assigned first when both fit
        count = prims[-1] if prims else None
        if count is not None:
            entry = next(s for s in specs if s is not count)
            return "prefixed", entry, count, None
    raise IntrospectionError("cannot determine Collection layout")


def typed_bytes_info(spec) -> Tuple[Any, Any, bool]:
    """(inner spec, framing bytes spec, empty_is_none) of a TypedBytes* node.  empty_is_none by name, else behaviourally:
    None serialises without error and what it wrote reads back as None."""
    se = _se()
    inner = priv(spec, "_spec", "spec", exclude=(se.BytesBase,), index=-1)
    framing = priv(spec, "_bytes_tmpl", "spec", only=(se.BytesBase,), index=0)
    try:
        ein = bool(object.__getattribute__(spec, "_empty_is_none"))
    except AttributeError:
        note_fallback(f"{type(spec).__name__}._empty_is_none")
        ein = False
        out = _write(spec, None)
        if out is not None:
            try:
                ein = se.BufferReader("<", out).read(spec) is None
            except Exception:
                ein = False
    return inner, framing, ein


def te_optional(spec) -> bool:
    """Whether a TEExceptionField may be absent: by name, else behaviourally (an exhausted reader yields None)."""
    se = _se()
    try:
        return bool(object.__getattribute__(spec, "_optional"))
    except AttributeError:
        note_fallback(f"{type(spec).__name__}._optional")
    try:
        return se.BufferReader("<", b"").read(spec) is None
    except Exception:
        return False


def forward_target(spec):
    """Evaluated target of a ForwardSerializable (evaluation is triggered through the public deserialize)."""
    se = _se()
    try:
        spec.deserialize(se.BufferReader("<", b""), None)
    except Exception:
        pass
    got = priv(spec, "_wrapped", "spec", index=0)
    if got is None or isinstance(got, se.MissingType):
        raise IntrospectionError("forward reference did not evaluate")
    return got


def bitfield_layout(adapter, bits: int) -> List[Tuple[str, int, int, Any]]:
    """[(member name, lowest bit, mask in place, enum/flag class or None)] of a BitField / BitfieldDataclass adapter, from
    behaviour only: decode every single-bit raw value and see which member becomes truthy."""
    import dataclasses
    import enum

    def dec(raw):
        d = adapter.decode(raw, ctx=None, pod=False)
        if dataclasses.is_dataclass(d) and not isinstance(d, type):
            d = {f.name: getattr(d, f.name) for f in dataclasses.fields(d)}
        return d

    names: List[str] = list(dec(0).keys())
    low: Dict[str, int] = {}
    mask: Dict[str, int] = {n: 0 for n in names}
    cls: Dict[str, Any] = {n: None for n in names}
    for i in range(bits):
        d = dec(1 << i)
        for n in names:
            v = d[n]
            if isinstance(v, (enum.IntEnum, enum.IntFlag)):
                cls[n] = type(v)
            if v:
                low.setdefault(n, i)
                mask[n] |= 1 << i
    for n in names:  # enum members that are not single bits: sweep narrow members completely
        if cls[n] is None and n in low and bin(mask[n]).count("1") <= 8:
            for k in range(1, (mask[n] >> low[n]) + 1):
                v = dec(k << low[n])[n]
                if isinstance(v, (enum.IntEnum, enum.IntFlag)):
                    cls[n] = type(v)
                    break
    return [(n, low[n], mask[n], cls[n]) for n in names if n in low]

"""Run bookkeeping shared by every check: violations, known findings, replay files, evidence.

A *violation record* is a dict ``{clause, site, witness, detail}``:
  clause  - which sentence of the oracle failed (stable short string)
  site    - narrowest stable name of where (registry key, template variable, combinator class, function)
  witness - JSON-able minimal input / event list that reproduces it through the check's ``replay``
  detail  - free text: expected vs observed
Known findings (``/verif/known_findings.json``) match on (property, clause, site-regex); anything else
is reported as ``VIOLATION property=<id> replay=<path>`` and makes the check exit 1.
"""
from __future__ import annotations

import hashlib
import json
import os
import re
import subprocess
import sys
import time
from typing import Any, Dict, List, Optional

VERIF = os.path.dirname(os.path.dirname(os.path.abspath(__file__)))
_OUT = os.environ.get("HMC_OUT") or VERIF
EVIDENCE_DIR = os.path.join(_OUT, "evidence")
REPLAY_DIR = os.path.join(_OUT, "replays")
FINDINGS_FILE = os.path.join(VERIF, "known_findings.json")
EVIDENCE_SCHEMA = "/root/.vp/EVIDENCE.schema.json"

REPO_ROOT = os.path.abspath(os.environ.get("HMC_REPO", "/repo"))
EXIT_OK, EXIT_VIOLATION, EXIT_HARNESS = 0, 1, 2


class HarnessError(Exception):
    """The machinery itself misbehaved (nondeterminism, bad replay) -- never reported as a VIOLATION."""


def jsonable(x: Any, depth: int = 0) -> Any:
    """Best-effort conversion of witnesses/samples to JSON (bytes -> {'hex':..}, tuples -> lists)."""
    if depth > 12:
        return repr(x)
    if x is None or isinstance(x, (bool, int, str)):
        return x
    if isinstance(x, float):
        if x != x or x in (float("inf"), float("-inf")):
            return {"float": repr(x)}
        return x
    if isinstance(x, (bytes, bytearray, memoryview)):
        return {"hex": bytes(x).hex()}
    if isinstance(x, dict):
        return {(k if isinstance(k, str) else repr(k)): jsonable(v, depth + 1) for k, v in x.items()}
    if isinstance(x, (list, tuple, set, frozenset)):
        seq = sorted(x, key=repr) if isinstance(x, (set, frozenset)) else x
        return [jsonable(v, depth + 1) for v in seq]
    return {"repr": repr(x)}


def unjson(x: Any) -> Any:
    """Inverse of jsonable for the forms replay needs (hex -> bytes, lists stay lists)."""
    if isinstance(x, dict):
        if set(x) == {"hex"}:
            return bytes.fromhex(x["hex"])
        if set(x) == {"float"}:
            return float(x["float"])
        return {k: unjson(v) for k, v in x.items()}
    if isinstance(x, list):
        return [unjson(v) for v in x]
    return x


def digest(obj: Any) -> bytes:
    return hashlib.blake2b(repr(obj).encode("utf8", "backslashreplace"), digest_size=16).digest()


def repo_rev() -> Dict[str, Any]:
    try:
        head = subprocess.run(["git", "-C", REPO_ROOT, "rev-parse", "HEAD"], capture_output=True, text=True).stdout.strip()
        dirty = bool(subprocess.run(["git", "-C", REPO_ROOT, "status", "--porcelain", "--untracked-files=no"],
                                    capture_output=True, text=True).stdout.strip())
    except Exception:  # pragma: no cover
        head, dirty = "unknown", False
    return {"repo_head": head, "repo_dirty": dirty, "repo_root": REPO_ROOT}


class Run:
    """One invocation of one check."""

    def __init__(self, prop: str, tier: str, seed: int, level: str, jobs: int = 16):
        self.prop, self.tier, self.seed, self.level, self.jobs = prop, tier, seed, level, jobs
        self.t0 = time.time()
        self.violations: List[Dict[str, Any]] = []
        self._viol_keys: Dict[tuple, int] = {}
        self.counters: Dict[str, int] = {}
        self.samples: List[Any] = []
        self.nontrivial: set = set()
        self.outcomes: set = set()
        self.coverage_extra: Dict[str, Any] = {}
        self.assumptions: List[str] = []
        self.caps: List[str] = []
        self.rule = ""
        self.exhaustive = True
        self.notes: List[str] = []

    # ---- counting -------------------------------------------------------------------------------
    def count(self, key: str, n: int = 1):
        self.counters[key] = self.counters.get(key, 0) + n

    def sample(self, s: Any, limit: int = 6):
        if len(self.samples) < limit:
            self.samples.append(jsonable(s))

    def mark_nontrivial(self, key: Any):
        self.nontrivial.add(digest(key))

    def outcome(self, key: Any):
        self.outcomes.add(digest(key))

    def cap(self, text: str):
        self.caps.append(text)
        self.exhaustive = False

    # ---- violations -----------------------------------------------------------------------------
    def violation(self, clause: str, site: str, witness: Any, detail: str = ""):
        key = (clause, site)
        n = self._viol_keys.get(key, 0)
        self._viol_keys[key] = n + 1
        if n < 3:  # keep at most 3 witnesses per (clause, site); count the rest
            self.violations.append({"clause": clause, "site": site, "witness": jsonable(witness), "detail": str(detail)[:2000]})

    def merge(self, part: Dict[str, Any]):
        """Merge a worker's partial result (see ``Part``)."""
        for k, v in part.get("counters", {}).items():
            self.count(k, v)
        for v in part.get("violations", []):
            self.violation(v["clause"], v["site"], v["witness"], v.get("detail", ""))
            extra = v.get("n", 1) - 1
            if extra > 0:
                self._viol_keys[(v["clause"], v["site"])] += extra
        self.nontrivial.update(part.get("nontrivial", ()))
        self.outcomes.update(part.get("outcomes", ()))
        for s in part.get("samples", []):
            self.sample(s)

    # ---- finish ---------------------------------------------------------------------------------
    def _load_findings(self) -> List[Dict[str, Any]]:
        if not os.path.exists(FINDINGS_FILE):
            return []
        with open(FINDINGS_FILE) as f:
            data = json.load(f)
        return [e for e in data.get("findings", []) if e.get("property") == self.prop]

    def finish(self) -> int:
        findings = self._load_findings()
        open_findings = [e for e in findings if e.get("status") == "open"]
        matched: Dict[int, int] = {}
        unmatched: List[Dict[str, Any]] = []
        for v in self.violations:
            hit = None
            for i, e in enumerate(open_findings):
                if e["clause"] == v["clause"] and re.fullmatch(e["site"], v["site"]):
                    wm = e.get("witness_regex")
                    if wm and not re.search(wm, json.dumps(v["witness"], sort_keys=True)):
                        continue
                    hit = i
                    break
            if hit is None:
                unmatched.append(v)
            else:
                matched[hit] = matched.get(hit, 0) + 1
        for i, e in enumerate(open_findings):
            if i in matched:
                print(f"KNOWN-FINDING: property={self.prop} {e['site_text'] if 'site_text' in e else e['site']}: {e['text']}")
        replay_paths = []
        seen_keys = set()
        for v in unmatched:
            key = (v["clause"], v["site"])
            if key in seen_keys:
                continue
            seen_keys.add(key)
            path = self.write_replay(v)
            replay_paths.append(path)
            if len(replay_paths) <= 25:
                print(f"VIOLATION property={self.prop} replay={path}")
                print(f"  clause={v['clause']} site={v['site']} detail={v['detail'][:300]}")
        if len(replay_paths) > 25:
            print(f"  ... and {len(replay_paths) - 25} more distinct (clause, site) violations (replays written)")
        self.write_evidence(len(unmatched), [open_findings[i].get("id", open_findings[i]["site"]) for i in matched])
        return EXIT_VIOLATION if unmatched else EXIT_OK

    def write_replay(self, v: Dict[str, Any]) -> str:
        d = os.path.join(REPLAY_DIR, self.prop)
        os.makedirs(d, exist_ok=True)
        sig = hashlib.blake2b(json.dumps([v["clause"], v["site"]], sort_keys=True).encode(), digest_size=6).hexdigest()
        path = os.path.join(d, f"{sig}.json")
        with open(path, "w") as f:
            json.dump({"property": self.prop, **v, **repo_rev()}, f, indent=1, sort_keys=True)
        return path

    def write_evidence(self, n_viol: int, known: List[str]):
        os.makedirs(EVIDENCE_DIR, exist_ok=True)
        c = self.counters
        cov: Dict[str, Any] = {
            "evaluations": int(c.get("evaluations", 0)),
            "distinct_nontrivial": len(self.nontrivial),
            "rule": self.rule,
            "samples": self.samples,
            "exhaustive": bool(self.exhaustive),
            "distinct_outcomes": len(self.outcomes),
            "caps_hit": self.caps,
            "counters": dict(sorted(c.items())),
            "known_findings_matched": known,
            "violation_sites": sorted({f"{v['clause']}@{v['site']}" for v in self.violations})[:50],
        }
        if self.level == "model_checking":
            cov["states"] = int(c.get("states", 0))
            cov["transitions"] = int(c.get("transitions", 0))
            cov["traces_validated_against_impl"] = int(c.get("traces_validated_against_impl", c.get("transitions", 0)))
        cov.update(self.coverage_extra)
        ev = {
            "property_id": self.prop, "tier": self.tier, "seed": int(self.seed), "level": self.level,
            "coverage": cov, "assumptions": self.assumptions, "wall_s": round(time.time() - self.t0, 3),
            "violations": n_viol, **repo_rev(), "notes": self.notes,
        }
        path = os.path.join(EVIDENCE_DIR, f"{self.prop}.json")
        tmp = path + ".tmp"
        with open(tmp, "w") as f:
            json.dump(ev, f, indent=1, sort_keys=True)
        os.replace(tmp, path)
        validate_evidence(path)


def validate_evidence(path: str):
    """Validate with jsonschema when the tooling venv is present; structural self-check otherwise."""
    with open(path) as f:
        ev = json.load(f)
    cov = ev["coverage"]
    ok = isinstance(cov.get("samples"), list) and len(cov["samples"]) >= 1
    if ev["level"] in ("exploration", "fault_enumeration"):
        ok = ok and cov.get("evaluations", 0) >= 1 and cov.get("distinct_nontrivial", 0) >= 2 and isinstance(cov.get("rule"), str)
    if ev["level"] == "model_checking":
        ok = ok and cov.get("states", 0) >= 1 and cov.get("transitions", 0) >= 1
    if not ok:
        print(f"HARNESS-ERROR evidence {path} would not validate (coverage too thin)", file=sys.stderr)
        raise HarnessError("evidence invalid")
    vt = "/opt/veriftools/pyvenv/bin/python"
    if os.path.exists(vt) and os.path.exists(EVIDENCE_SCHEMA) and os.environ.get("HMC_SCHEMA_CHECK", "1") == "1":
        code = ("import json,sys,jsonschema;"
                "jsonschema.validate(json.load(open(sys.argv[1])), json.load(open(sys.argv[2])))")
        r = subprocess.run([vt, "-c", code, path, EVIDENCE_SCHEMA], capture_output=True, text=True)
        if r.returncode != 0:
            print(r.stderr[-2000:], file=sys.stderr)
            raise HarnessError("evidence does not validate against schema")


class Part:
    """Per-worker accumulator with the same counting API as Run; ``dump()`` is merged by ``Run.merge``."""

    def __init__(self):
        self.counters: Dict[str, int] = {}
        self.viol: Dict[tuple, Dict[str, Any]] = {}
        self.nontrivial: set = set()
        self.outcomes: set = set()
        self.samples: List[Any] = []

    def count(self, key, n=1):
        self.counters[key] = self.counters.get(key, 0) + n

    def mark_nontrivial(self, key):
        self.nontrivial.add(digest(key))

    def outcome(self, key):
        self.outcomes.add(digest(key))

    def sample(self, s, limit=3):
        if len(self.samples) < limit:
            self.samples.append(jsonable(s))

    def violation(self, clause, site, witness, detail=""):
        key = (clause, site)
        if key in self.viol:
            self.viol[key]["n"] += 1
        else:
            self.viol[key] = {"clause": clause, "site": site, "witness": jsonable(witness), "detail": str(detail)[:2000], "n": 1}

    def dump(self):
        return {"counters": self.counters, "violations": list(self.viol.values()), "nontrivial": self.nontrivial,
                "outcomes": self.outcomes, "samples": self.samples}


def pmap(fn, items, jobs: int, chunksize: Optional[int] = None):
    """Ordered parallel map over long-lived forked workers (deterministic result order)."""
    items = list(items)
    if jobs <= 1 or len(items) <= 1:
        return [fn(x) for x in items]
    import multiprocessing as mp
    ctx = mp.get_context("fork")
    with ctx.Pool(min(jobs, len(items))) as pool:
        return pool.map(fn, items, chunksize or max(1, len(items) // (jobs * 8)))

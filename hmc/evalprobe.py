"""Side-effect probe for "was this text evaluated?" checks (used by props/c11_human_text.py).

An expression such as ``__import__('hmc.evalprobe').evalprobe.hit()`` needs no cooperation from the evaluating code's
globals / env / replacements: if -- and only if -- something evaluates it, ``HITS[0]`` goes up.  ``reset()`` before the call
under test, read ``hits()`` after it.  Nothing else happens; the return value is a harmless int.
"""
HITS = [0]

EXPR = "__import__('hmc.evalprobe').evalprobe.hit()"


def hit(*_a, **_k) -> int:
    HITS[0] += 1
    return 7


def reset() -> None:
    HITS[0] = 0


def hits() -> int:
    return HITS[0]

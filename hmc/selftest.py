"""Explorer self-test (run by MANIFEST.setup_cmd): a toy system with a planted bug must be found at its minimal
depth, state counts must be exact, and a clean system must stay silent."""
import sys

from hmc import explore
from hmc.core import Run


class W:
    def __init__(self):
        self.x, self.y, self.violations = 0, 0, []


class Toy:
    copyable = True

    def __init__(self, planted):
        self.planted = planted

    def fresh(self):
        return W()

    def enabled(self, w):
        return [("a",), ("b",)]

    def deviation(self, ev):
        return 1 if ev[0] == "b" else 0

    def canon(self, w):
        return (w.x, w.y)

    def step(self, w, ev):
        if ev[0] == "a":
            w.x = (w.x + 1) % 4
        else:
            w.y = (w.y + 1) % 3
        if self.planted and (w.x, w.y) == (3, 2):
            w.violations.append({"clause": "planted", "site": "toy", "detail": "x=3,y=2"})


def main():
    r = Run("SELF", "quick", 0, "model_checking", jobs=2)
    info = explore.bfs(r, Toy(False), depth=8, dev_bound=8)
    assert info["states"] == 12 and not r.violations, info
    r = Run("SELF", "quick", 0, "model_checking", jobs=2)
    explore.bfs(r, Toy(True), depth=8, dev_bound=8)
    assert r.violations and len(r.violations[0]["witness"]["history"]) == 5, r.violations
    r = Run("SELF", "quick", 0, "model_checking", jobs=1)
    info = explore.bfs(r, Toy(True), depth=8, dev_bound=1)
    assert not r.violations and info["states"] == 8, info  # y can only reach 1 with one deviation
    print("hmc selftest ok")


if __name__ == "__main__":
    sys.exit(main())

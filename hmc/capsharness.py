"""Environment for the C16 harness: a 2-session x 2-region proxy universe built from the real classes, without
OS resources, plus a driver that pushes Seed request/response flows through the real MITMProxyEventManager.

Nothing in here judges anything (no oracle); it only builds objects and moves bytes.

Owned nondeterminism / environment:
* ``uuid.uuid4`` is replaced by a counter (``Universe.uuid_counter``), reset on every ``build_universe()``.
* ``SessionManager`` normally creates multiprocessing queues/events (``HTTPFlowContext``, ``shutdown_signal``); these are
  replaced by in-memory objects with the same ``put/get(False)/Empty`` and ``is_set/set`` contract (DESIGN §3).
* ``viewer_settings.iter_viewer_data_dirs`` (file-system probing for a viewer cache, irrelevant to caps) yields nothing.
* ``AddonManager`` class-level state is re-initialised with no addons on every build.
* Flows are mitmproxy ``tflow`` objects with explicit ids; they cross the proxy boundary as *serialised state* in both
  directions, exactly like in production (``get_state`` -> queue -> ``HippoHTTPFlow.from_state`` -> handler ->
  ``resume`` -> queue -> ``HTTPFlow.from_state``).  ``pump_proxy_event`` is a coroutine that never suspends when the
  queue is non-empty, so it is driven with a single ``send(None)``; no event loop exists.
"""
from __future__ import annotations

import copy
import queue
import urllib.parse
import uuid
from typing import Any, Dict, List, Optional, Tuple

import hippolyzer.lib.proxy.sessions as _sessions_mod
import hippolyzer.lib.proxy.viewer_settings as _viewer_settings_mod
from hippolyzer.lib.base import llsd
from hippolyzer.lib.base.datatypes import UUID
from hippolyzer.lib.proxy.addons import AddonManager
from hippolyzer.lib.proxy.caps import SerializedCapData
from hippolyzer.lib.proxy.http_event_manager import MITMProxyEventManager
from hippolyzer.lib.proxy.sessions import SessionManager
from hippolyzer.lib.proxy.settings import ProxySettings
from mitmproxy.http import Request, Response
from mitmproxy.test import tflow, tutils

from .core import HarnessError

N_SESSIONS, N_REGIONS = 2, 2


class MemQueue:
    """Deterministic stand-in for multiprocessing.Queue (same put / get(False) / Empty contract)."""

    def __init__(self, *_a, **_k):
        self.items: List[Any] = []

    def put(self, item, *_a, **_k):
        self.items.append(item)

    put_nowait = put

    def get(self, *_a, **_k):
        if not self.items:
            raise queue.Empty()
        return self.items.pop(0)

    get_nowait = get

    def empty(self):
        return not self.items


class Flag:
    def __init__(self, *_a, **_k):
        self._f = False

    def is_set(self):
        return self._f

    def set(self):
        self._f = True

    def clear(self):
        self._f = False

    def wait(self, *_a, **_k):
        return self._f


class MemFlowContext:
    def __init__(self):
        self.from_proxy_queue = MemQueue()
        self.to_proxy_queue = MemQueue()
        self.shutdown_signal = Flag()
        self.mitmproxy_ready = Flag()


class _MPShim:
    Event = Flag
    Queue = MemQueue


_INSTALLED = False
_REAL_UUID4 = uuid.uuid4


def install_stubs():
    global _INSTALLED
    if _INSTALLED:
        return
    _sessions_mod.HTTPFlowContext = MemFlowContext
    _sessions_mod.multiprocessing = _MPShim
    _viewer_settings_mod.iter_viewer_data_dirs = lambda: iter(())
    _INSTALLED = True


def seed_url(s: int, r: int, gen: int = 0) -> str:
    return f"https://sim/cap/seed-{s}{r}" + ("" if gen == 0 else f"-g{gen}")


class Universe:
    """2 sessions x 2 regions; ``regions[i]`` with i = 2*s + r, in SessionManager / Session iteration order.

    Both agents stand in the SAME two simulators: region r of either session has circuit address 127.0.0.1:1300r (and
    the same handle), but its own per-agent Seed URL.  Anything keyed on the simulator instead of the agent's region
    collides on purpose."""

    def __init__(self):
        install_stubs()
        self.uuid_counter = 0
        uuid.uuid4 = self._uuid4
        self.sm = SessionManager(ProxySettings())
        AddonManager.init([], self.sm, [])
        self.sessions = []
        self.regions = []
        for s in range(N_SESSIONS):
            sess = self.sm.create_session({
                "session_id": str(UUID(int=0x100 + s)), "secure_session_id": str(UUID(int=0x200 + s)),
                "agent_id": str(UUID(int=0x300 + s)), "circuit_code": 1000 + s,
                "sim_ip": "127.0.0.1", "sim_port": 13000, "region_x": 256, "region_y": 256,
                "seed_capability": seed_url(s, 0),
            })
            sess.pending = False
            for r in range(1, N_REGIONS):
                sess.register_region(("127.0.0.1", 13000 + r), seed_url=seed_url(s, r), handle=(256 << 32) | (256 * (r + 1)))
            if len(sess.regions) != N_REGIONS:
                raise HarnessError(f"universe construction produced {len(sess.regions)} regions")
            sess.main_region = sess.regions[0]
            self.sessions.append(sess)
            self.regions.extend(sess.regions)
        self.em = MITMProxyEventManager(self.sm, self.sm.flow_context)
        self.flow_counter = 0
        self.pump_errors: List[str] = []

    def _uuid4(self):
        self.uuid_counter += 1
        return uuid.UUID(int=self.uuid_counter)

    # ---- identity helpers ---------------------------------------------------------------------
    def region_index(self, region) -> Optional[int]:
        if region is None:
            return None
        for i, r in enumerate(self.regions):
            if r is region:
                return i
        return -1

    def session_index(self, session) -> Optional[int]:
        if session is None:
            return None
        for i, s in enumerate(self.sessions):
            if s is session:
                return i
        return -1

    # ---- flows ----------------------------------------------------------------------------------
    def _pump(self):
        coro = self.em.pump_proxy_event()
        try:
            coro.send(None)
        except StopIteration:
            return
        except HarnessError:
            raise
        except Exception as e:
            # the production loop (run()) logs and carries on; the flow was handed back by the finally clause
            self.pump_errors.append(repr(e))
            return
        coro.close()
        raise HarnessError("pump_proxy_event suspended: nothing was queued")

    def _take_callback(self) -> Dict:
        q = self.sm.flow_context.to_proxy_queue
        if q.empty():
            raise HarnessError("event manager did not hand the flow back")
        kind, _fid, state = q.get(False)
        if kind != "callback" or not q.empty():
            raise HarnessError(f"unexpected callback traffic: {kind}")
        return state

    def cap_request(self, url: str, body: Any) -> Dict[str, Any]:
        """Viewer POSTs an LLSD body to any cap URL (same path as seed_request; 'upstream' is the forwarded body)."""
        return self.seed_request(url, body)

    def cap_response(self, request_state: Dict, body: Dict[str, Any]) -> Dict[str, Any]:
        """Simulator answers 200 with an LLSD map (same path as seed_response)."""
        return self.seed_response(request_state, body)

    def seed_request(self, url: str, names: Any) -> Dict[str, Any]:
        """Viewer POSTs its cap-name list to ``url``. Returns what mitmproxy would forward upstream."""
        p = urllib.parse.urlsplit(url)
        port = p.port or (443 if p.scheme == "https" else 80)
        req = tutils.treq(host=p.hostname, port=port, scheme=p.scheme.encode(), authority=p.netloc.encode(),
                          path=(p.path or "/").encode(), method=b"POST", content=llsd.format_xml(dict(names) if isinstance(names, dict) else list(names)))
        f = tflow.tflow(req=req)
        self.flow_counter += 1
        f.id = f"c16-flow-{self.flow_counter}"
        if f.request.url != url:
            raise HarnessError(f"flow URL {f.request.url!r} != {url!r}")
        f.metadata["cap_data_ser"] = SerializedCapData()
        self.sm.flow_context.from_proxy_queue.put(("request", f.get_state()), True)
        self._pump()
        state = self._take_callback()
        # read the serialised flow directly (what mitmproxy would rebuild and forward)
        back_req = Request.from_state(copy.deepcopy(state["request"]))
        try:
            upstream = llsd.parse_xml(back_req.content)
        except Exception as e:  # pragma: no cover
            upstream = repr(e)
        meta = state.get("metadata") or {}
        ser = meta.get("cap_data_ser")
        return {"state": state, "upstream": upstream, "upstream_url": back_req.url,
                "cap": tuple(ser) if ser is not None else None,
                "short_circuited": state.get("response") is not None,
                "needed": list(meta.get("needed_proxy_caps") or [])}

    def seed_response(self, request_state: Dict, grant: Dict[str, str]) -> Dict[str, Any]:
        """Simulator answers 200 with ``grant``. Returns the body the viewer would receive."""
        st = copy.deepcopy(request_state)
        st["response"] = Response.make(200, llsd.format_xml(dict(grant)), {"Content-Type": "application/llsd+xml"}).get_state()
        self.sm.flow_context.from_proxy_queue.put(("response", st), True)
        self._pump()
        state = self._take_callback()
        resp = Response.from_state(state["response"])
        try:
            body = llsd.parse_xml(resp.content)
        except Exception as e:  # pragma: no cover
            body = repr(e)
        return {"body": body, "status": resp.status_code}


def caps_snapshot(region) -> Tuple:
    """The region's cap multidict in iteration order + the reverse index in iteration order (both order-sensitive)."""
    caps = tuple((n, t.name, u) for n, (t, u) in region.caps.items())
    lookup = getattr(region, "_caps_url_lookup", None)
    rev = tuple((u, t.name, n) for u, (t, n) in lookup.items()) if isinstance(lookup, dict) else ()
    return caps, rev
